#!/bin/bash
# Runs the repository's test suite with the verification guard OFF and checks that every test
# of the pinned stable baseline (/root/.vp/BASELINE.json: stable_pass) still passes.
cd /repo || exit 2
out=$(CARGO_NET_OFFLINE=true cargo test --workspace --no-fail-fast --offline 2>&1)
python3 - "$out" <<'PY'
import json,re,sys
out=sys.argv[1]
base=json.load(open('/root/.vp/BASELINE.json'))['stable_pass']
ok=set(); crate=None
for l in out.splitlines():
    m=re.match(r'\s+Running (?:unittests )?(\S+)',l)
    if m:
        p=m.group(1)
        crate='melvm' if 'melvm' in l else ('tip911_stakeset' if 'tip911' in l else 'melstf')
    m=re.match(r'test (\S+) \.\.\. ok',l) or re.match(r'test (\S+) - should panic \.\.\. ok',l)
    if m and crate: ok.add(f'{crate}::{m.group(1)}')
missing=[b for b in base if b not in ok]
print(f'baseline: {len(base)-len(missing)}/{len(base)} stable tests pass')
if missing:
    print('MISSING:',missing); sys.exit(1)
PY
