#!/bin/bash
# usage: tools/confirm_seed.sh <name> <worktree> <property>
# Confirms a seeded change in its scratch worktree (patch applies to HEAD, demo fails with it and passes
# without it, the 76 baseline tests still pass with it), then runs every quick check against it in /repo.
name=$1; wt=$2; prop=$3
set -u
cd "$wt" || exit 2
patch="$wt/MUTATION/patch.diff"
demo=$(ls tests/demo_*.rs 2>/dev/null | head -1)
[ -z "$demo" ] && demo=$(ls MUTATION/demo_*.rs | head -1) && mkdir -p tests && cp "$demo" tests/ && demo=tests/$(basename "$demo")
tname=$(basename "$demo" .rs)
git checkout -q -- src lib 2>/dev/null
echo "== [$name] demo WITHOUT the change"
CARGO_NET_OFFLINE=true cargo test --offline --test "$tname" 2>&1 | grep -E "^test result|error(\[|:)" | head -3
git apply "$patch" || { echo "PATCH DOES NOT APPLY"; exit 1; }
echo "== [$name] demo WITH the change"
CARGO_NET_OFFLINE=true cargo test --offline --test "$tname" 2>&1 | grep -E "^test result|error(\[|:)" | head -3
echo "== [$name] baseline suite WITH the change (demo moved away)"
mkdir -p /tmp/mut/_hold && mv "$demo" /tmp/mut/_hold/
out=$(CARGO_NET_OFFLINE=true cargo test --workspace --no-fail-fast --offline 2>&1)
mv /tmp/mut/_hold/$(basename "$demo") "$demo"
python3 - "$out" <<'PY'
import json,re,sys
out=sys.argv[1]
base=json.load(open('/root/.vp/BASELINE.json'))['stable_pass']
ok=set(); crate=None
for l in out.splitlines():
    if re.match(r'\s+Running ',l):
        crate='melvm' if 'melvm' in l else ('tip911_stakeset' if 'tip911' in l else 'melstf')
    m=re.match(r'test (\S+) \.\.\. ok',l) or re.match(r'test (\S+) - should panic \.\.\. ok',l)
    if m and crate: ok.add(f'{crate}::{m.group(1)}')
missing=[b for b in base if b not in ok]
print(f'baseline with change: {len(base)-len(missing)}/{len(base)} stable tests pass', 'MISSING '+str(missing) if missing else '')
PY
echo "== [$name] quick checks in /repo with the change applied"
cd /repo && git apply "$patch" || { echo "PATCH DOES NOT APPLY TO /repo"; exit 1; }
cd /verif
res=""
for id in $(python3 -c "import json;print(' '.join(c['property_id'] for c in json.load(open('MANIFEST.json'))['checks']))"); do
  o=$(./check $id --tier quick 2>&1); rc=$?
  n=$(echo "$o" | grep -c '^VIOLATION')
  first=$(echo "$o" | grep -A1 '^VIOLATION' | grep -v '^VIOLATION' | head -1 | cut -c1-200)
  echo "   $id rc=$rc violations=$n $first"
done
git -C /repo checkout -- .
git -C /verif checkout -- evidence 2>/dev/null
echo "== done; /repo clean: $(git -C /repo status --short | wc -l) changes"
