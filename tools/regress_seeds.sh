#!/bin/bash
# usage: tools/regress_seeds.sh [name-prefix]
# Applies every stored seeded change to /repo in turn, runs the quick check of the property it targets,
# reverts /repo, and reports whether the check still fires. /repo must be clean; nothing is committed.
cd "$(dirname "$0")/.."
[ -n "$(git -C /repo status --short)" ] && { echo "/repo is not clean"; exit 2; }
miss=0
for d in seeded/${1:-}*/; do
  name=$(basename "$d")
  prop=$(python3 -c "import json;m=json.load(open('$d/meta.json'));print(m.get('regress_with', m['breaks_property']))")
  if ! git -C /repo apply --check "$PWD/$d/patch.diff" 2>/dev/null; then echo "$name $prop PATCH-NO-LONGER-APPLIES"; continue; fi
  git -C /repo apply "$PWD/$d/patch.diff"
  o=$(./check $prop --tier quick 2>&1); rc=$?
  git -C /repo checkout -- .
  n=$(echo "$o" | grep -c '^VIOLATION')
  echo "$name $prop rc=$rc violations=$n $(echo "$o" | grep -A1 '^VIOLATION' | grep -v '^VIOLATION' | head -1 | cut -c1-140)"
  [ $rc -ne 1 ] && miss=$((miss+1))
done
git checkout -q -- evidence 2>/dev/null
echo "== not firing: $miss; /repo clean: $(git -C /repo status --short | wc -l) changes"
