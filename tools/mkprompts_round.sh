mkdir -p /tmp/mut && cd /repo && for i in $(seq -w 1 20); do git worktree add -q --detach /tmp/mut/C$i HEAD; done; git worktree list | wc -l; python3 - <<'EOF'
import json,glob,os
props={json.loads(l)['id']:json.loads(l) for l in open('/verif/properties.jsonl')}
prev={}
for f in sorted(glob.glob('/verif/seeded/*/meta.json')):
    m=json.load(open(f)); prev.setdefault(m['breaks_property'],[]).append((m['name'],m['needs_to_manifest']))
hints={
'C01':"Relevant code: check_tx_coins_balanced, create_next_state, load_relevant_coins, output_coins_from_tx (src/state/applytx.rs); melmint settlement (src/state/melmint.rs: process_*_for_single_pool, pro_rata/multiply_frac, process_pegging, calculate_reward/dosc_to_erg), apply_tip_909 and collect_proposer_action_fee (src/state.rs).",
'C02':"Relevant code: load_relevant_coins / extract_input_coins / output_coins_from_tx / create_next_state / check_tx_validity / handle_faucet_tx in src/state/applytx.rs, src/state/coins.rs, UnsealedState::apply_tx_batch in src/state.rs. An unsealed state can only be observed by sealing a clone (`state.clone().seal(None)`).",
'C03':"Relevant code: apply_tx_batch_impl and its helpers (src/state/applytx.rs: which steps are parallel (rayon) and which sequential), SealedState::apply_block (iterates a HashSet), src/state/txset.rs, melmint's per-pool processing (src/state/melmint.rs), load_stake_info.",
'C04':"Relevant code: check_tx_validity / validate_tx_scripts in src/state/applytx.rs, Covenant::execute and Executor::new_from_env (lib/melvm/src/lib.rs, executor.rs, consts.rs, value.rs).",
'C05':"Relevant code: fee handling in create_next_state (src/state/applytx.rs), collect_proposer_action_fee / apply_proposer_action / seal / next_unsealed (src/state.rs), covenant weight in lib/melvm/src/opcode.rs and covenant_weight_from_bytes in lib/melvm/src/lib.rs.",
'C06':"Relevant code: SealedState::apply_block / to_block / header / next_unsealed in src/state.rs.",
'C07':"Relevant code: SealedState::header / next_unsealed / history / transaction_sorted_posn, transactions_root_hash / tip908_transactions, src/smtmapping.rs, src/state/coins.rs, src/state/txset.rs, lib/tip911-stakeset/src/lib.rs (pre_tip911).",
'C08':"Relevant code: SealedState::from_block / to_block / next_unsealed in src/state.rs; think about every field of the in-memory state and where it is restored from.",
'C09':"The change must introduce a panic / abort / arithmetic overflow / non-termination reachable from the public API (apply_tx, apply_tx_batch, seal, apply_block, next_unsealed, confirm, from_block+header) by an input an adversary can submit.",
'C10':"Relevant code: lib/melvm/src/executor.rs (step, update_pc_state, new_from_env), lib/melvm/src/value.rs. Keep the unit tests in lib/melvm/src/opcode.rs passing.",
'C11':"Relevant code: lib/melvm/src/opcode.rs (opcodes_weight / opcodes_car_weight) and lib/melvm/src/executor.rs (Loop handling, update_pc_state, jumps, guards before shared byte strings/vectors are copied).",
'C12':"Relevant code: lib/melvm/src/opcode.rs (OpCode::encode / decode) and lib/melvm/src/lib.rs (Covenant::from_bytes / to_bytes / from_ops / hash / weight, covenant_weight_from_bytes).",
'C13':"Relevant code: load_stake_info / stake_is_consistent and the CoinLocked check in check_tx_validity (src/state/applytx.rs), StakeSet (lib/tip911-stakeset/src/lib.rs), next_unsealed in src/state.rs. Use a custom network in the demo; states at any height can be fabricated through SealedState::from_block with a hand-made header and a one-entry history SmtMapping.",
'C14':"Relevant code: SealedState::confirm in src/state.rs and StakeSet::votes/total_votes in lib/tip911-stakeset/src/lib.rs.",
'C15':"Relevant code: src/state/melmint.rs (get_*_transactions, process_*_for_single_pool, pro_rata, canonical_pool_key, extract_pool_keys_sorted, transactions_for_pool).",
'C16':"Relevant code: create_builtins, process_deposits_for_single_pool, process_withdrawals_for_single_pool, process_pegging (src/state/melmint.rs), apply_tip_909 (src/state.rs).",
'C17':"Relevant code: move_action_fee_multiplier / apply_proposer_action / seal in src/state.rs.",
'C18':"Relevant code: validate_and_get_doscmint_speed, proof_is_tip910, compute_doscmint_speed, check_dosc_total_output, the speed reduction in apply_tx_batch_impl (src/state/applytx.rs), calculate_reward / dosc_to_erg / microergs_per_dosc (src/state/melmint.rs). DoscMint: spends (as input 0) a coin created at an EARLIER height h; puzzle = tmelcrypt::hash_keyed(header_at_h.hash(), stdcode::serialize(&coin_id)); data = stdcode::serialize(&(difficulty: u32, proof.to_bytes())), melpow::Proof::generate(&puzzle, difficulty, melstf::LegacyMelPowHash or melstf::Tip910MelPowHash).",
'C19':"Relevant code: handle_faucet_tx and faucet_dedup_pseudocoin in src/state/applytx.rs, create_next_state, check_tx_validity.",
'C20':"Relevant code: src/state/coins.rs and every caller that inserts/removes coins; apply_tip_906_for_next_state in src/state.rs. Count entries: key tmelcrypt::hash_keyed(b\"coin_count\", covhash.0), stdcode u64 value.",
}
T='''You are helping test a verification framework by writing a *seeded defect* (a mutation) for a Rust code base. Work ONLY inside the git worktree /tmp/mut/{id} (a checkout of the `melstf` repository: Mel blockchain's state-transition function - crates `melstf` (src/), `melvm` (lib/melvm), `tip911-stakeset` (lib/tip911-stakeset)). Do NOT read or touch /verif, /repo or any other /tmp/mut/* directory. The sandbox has no network; use `cargo ... --offline`. IMPORTANT: never use `git stash` (the stash is shared between worktrees and other people are working in sibling worktrees right now) - to compare with/without your change use `git diff > file`, `git apply -R file` and `git apply file`.

The property you must break (read it carefully):

Property {id}: {title}

Statement: {statement}

Quantified over: {q}

Earlier rounds already produced these changes for the property:
{prevlist}
You must produce a DIFFERENT defect: a different code site AND a different kind of trigger from all of them. Prefer parts of the statement none of them touched, and subtle defects (a rounding direction, a boundary comparison, an interaction of two features, a rarely taken branch).

YOUR TASK: make a small source change to the library code in /tmp/mut/{id} (src/ or lib/) that makes the code violate this property, such that:
1. the workspace still compiles and the existing test suite gives the same results as before (`cd /tmp/mut/{id} && cargo test --workspace --no-fail-fast --offline`; before your change 76 tests pass and exactly 4 fail in `melstf` (state::tests::apply_batch_normal, fee_pool_increase, insufficient_fees, simple_dmt) - those are known failures; after your change exactly the same tests must pass/fail). Run the suite before and after to confirm.
2. the defect needs something SPECIFIC to manifest - a multi-step sequence of operations, an unusual input or boundary value, a particular ordering/combination, a particular height or configuration, two cooperating sites that each look fine alone - NOT something ordinary use would expose at once. Make it look like a plausible programming mistake, not an obvious sabotage.
3. you write a demonstration: a Rust integration test file /tmp/mut/{id}/tests/demo_{lid}.rs using only the public API of the crates (melstf::{{GenesisConfig, UnsealedState, SealedState, SmtMapping, CoinMapping}}, melstructs types, melvm::{{Covenant, CovenantEnv, Value, opcode::OpCode}}, novasmt, tmelcrypt, stdcode, rayon, melpow) that FAILS with your change and PASSES without it. Confirm both. The demo is not part of the patch.

Useful facts: GenesisConfig has public fields (network, init_coindata, stakes, init_fee_pool, init_fee_multiplier) and `.realize(&db)` gives an UnsealedState (db = novasmt::Database::new(novasmt::InMemoryCas::default())); fee multiplier 0 makes fees optional; every non-faucet transaction needs a MEL input; on networks other than Mainnet/Testnet (e.g. NetID::Custom02) all rule changes are active from height 0 and Faucet transactions (no inputs) can mint coins for set-ups; `Covenant::always_true()` is an anyone-can-spend covenant (covhash = .hash(), spending tx lists .to_bytes() in `covenants`); states at any height can be fabricated through SealedState::from_block with a hand-made header, a one-entry history SmtMapping (height-1) and coin/pool trees written into the same Database (the MEL/SYM, MEL/ERG and ERG/SYM pools must exist). See the tests at the bottom of src/state.rs for how states and transactions are built. {hint}

DELIVERABLES (write them under /tmp/mut/{id}/MUTATION/):
- patch.diff : `git diff -- src lib` of your library change only (not the demo test)
- demo_{lid}.rs : a copy of the demonstration test
- NOTES.md : what the change is, why it breaks the property, what exactly is needed to trigger it, and the exact commands you ran with their outcome (suite before/after, demo with/without the patch).
Leave the worktree with the patch APPLIED and the demo test file in tests/. Keep the change small (a few lines). Report back a short summary (the diff, the trigger, confirmation results).'''
for i,h in hints.items():
    p=props[i]
    pl='\n'.join(f'- "{n}" (needed: {d})' for n,d in prev.get(i,[]))
    open(f'/tmp/mut/{i}.prompt.txt','w').write(T.format(id=i,lid=i.lower(),title=p['title'],statement=p['statement'],q=p['quantifier']['text'],hint=h,prevlist=pl))
print(len(hints))
EOF