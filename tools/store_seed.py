#!/usr/bin/env python3
"""usage: store_seed.py <name> <worktree> <property> <confirm-log> [<earlier-confirm-log>] "<needs>"
Copies a confirmed seeded change into /verif/seeded/<name>/ with a meta.json built from the confirmation log."""
import json, os, re, shutil, sys, glob
name, wt, prop, log = sys.argv[1:5]
earlier = sys.argv[5] if len(sys.argv) > 6 else None
needs = sys.argv[-1]
dst = os.path.join("/verif/seeded", name)
os.makedirs(dst, exist_ok=True)
shutil.copy(os.path.join(wt, "MUTATION", "patch.diff"), os.path.join(dst, "patch.diff"))
demo = (glob.glob(os.path.join(wt, "tests", "demo_*.rs")) or glob.glob(os.path.join(wt, "MUTATION", "demo_*.rs")))[0]
shutil.copy(demo, os.path.join(dst, os.path.basename(demo)))
if os.path.exists(os.path.join(wt, "MUTATION", "NOTES.md")):
    shutil.copy(os.path.join(wt, "MUTATION", "NOTES.md"), os.path.join(dst, "AUTHOR_NOTES.md"))

def parse(path):
    txt = open(path).read()
    res = {"demo_without_change": None, "demo_with_change": None, "baseline_with_change": None, "checks": {}}
    m = re.search(r"demo WITHOUT the change\n(test result: [^\n]*)", txt)
    if m: res["demo_without_change"] = m.group(1)
    m = re.search(r"demo WITH the change\n(test result: [^\n]*)", txt)
    if m: res["demo_with_change"] = m.group(1)
    m = re.search(r"(baseline with change: [^\n]*)", txt)
    if m: res["baseline_with_change"] = m.group(1).strip()
    for m in re.finditer(r"^[ \t]+(C\d\d) rc=(\d+) violations=(\d+)[ \t]*(.*)$", txt, re.M):
        res["checks"][m.group(1)] = {"exit": int(m.group(2)), "violations": int(m.group(3)), "first": m.group(4).strip()[:220]}
    return res

r = parse(log)
caught = sorted(k for k, v in r["checks"].items() if v["exit"] == 1)
meta = {
    "name": name, "breaks_property": prop, "author": "independent sub-agent given only the property text and a scratch worktree",
    "needs_to_manifest": needs,
    "confirmed": {"demo_without_change": r["demo_without_change"], "demo_with_change": r["demo_with_change"], "baseline_with_change": r["baseline_with_change"]},
    "ran": "tools/confirm_seed.sh (demo with/without in the scratch worktree, 76-test baseline with the change, then every quick check with the patch applied to /repo and reverted afterwards)",
    "caught_by_quick_checks": caught,
    "caught_by_owner_property_check": prop in caught,
    "first_violation_per_check": {k: r["checks"][k]["first"] for k in caught},
}
if earlier and os.path.exists(earlier):
    e = parse(earlier)
    meta["caught_before_strengthening"] = sorted(k for k, v in e["checks"].items() if v["exit"] == 1)
json.dump(meta, open(os.path.join(dst, "meta.json"), "w"), indent=1)
print(name, "caught by", caught)
