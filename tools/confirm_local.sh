#!/bin/bash
# usage: tools/confirm_local.sh <worktree>
# The worktree-only half of confirm_seed.sh (can run for several worktrees in parallel): the patch applies to HEAD,
# the demo passes without it and fails with it, the 76 baseline tests still pass with it. Leaves the patch applied.
wt=$1
set -u
cd "$wt" || exit 2
patch="$wt/MUTATION/patch.diff"
demo=$(ls tests/demo_*.rs 2>/dev/null | head -1)
[ -z "$demo" ] && demo=$(ls MUTATION/demo_*.rs | head -1) && mkdir -p tests && cp "$demo" tests/ && demo=tests/$(basename "$demo")
tname=$(basename "$demo" .rs)
git checkout -q -- src lib 2>/dev/null
echo "== [$wt] demo WITHOUT the change: $(CARGO_NET_OFFLINE=true cargo test --offline --test "$tname" 2>&1 | grep -E "^test result|error(\[|:)" | head -2 | tr '\n' ' ')"
git apply "$patch" || { echo "PATCH DOES NOT APPLY"; exit 1; }
echo "== [$wt] demo WITH the change: $(CARGO_NET_OFFLINE=true cargo test --offline --test "$tname" 2>&1 | grep -E "^test result|error(\[|:)" | head -2 | tr '\n' ' ')"
hold=$(mktemp -d)
mv "$demo" "$hold/"
out=$(CARGO_NET_OFFLINE=true cargo test --workspace --no-fail-fast --offline 2>&1)
mv "$hold/$(basename "$demo")" "$demo"; rmdir "$hold"
python3 - "$out" <<'PY'
import json,re,sys
out=sys.argv[1]
base=json.load(open('/root/.vp/BASELINE.json'))['stable_pass']
ok=set(); crate=None
for l in out.splitlines():
    if re.match(r'\s+Running ',l):
        crate='melvm' if 'melvm' in l else ('tip911_stakeset' if 'tip911' in l else 'melstf')
    m=re.match(r'test (\S+) \.\.\. ok',l) or re.match(r'test (\S+) - should panic \.\.\. ok',l)
    if m and crate: ok.add(f'{crate}::{m.group(1)}')
missing=[b for b in base if b not in ok]
print(f'== baseline with change: {len(base)-len(missing)}/{len(base)} stable tests pass', 'MISSING '+str(missing) if missing else '')
PY
