#!/usr/bin/env python3
"""usage: update_meta_from_matrix.py <dir with <seed-name>.txt files written by matrix_parallel.sh>
Folds the per-check results into /verif/seeded/<name>/meta.json (caught_by_quick_checks, first_violation_per_check)."""
import json, os, re, sys, glob
d = sys.argv[1]
for f in sorted(glob.glob(os.path.join(d, "*.txt"))):
    name = os.path.basename(f)[:-4]
    mp = f"/verif/seeded/{name}/meta.json"
    if not os.path.exists(mp):
        continue
    m = json.load(open(mp))
    checks = {}
    for l in open(f):
        mm = re.match(r"(\S+) (C\d\d) rc=(\d+) violations=(\d+)\s*(.*)", l)
        if mm and mm.group(1) == name:
            checks[mm.group(2)] = (int(mm.group(3)), int(mm.group(4)), mm.group(5).strip())
    if not checks:
        continue
    caught = sorted(k for k, v in checks.items() if v[0] == 1)
    m["caught_by_quick_checks"] = caught
    m["inconclusive_quick_checks"] = sorted(k for k, v in checks.items() if v[0] == 2)
    m["caught_by_owner_property_check"] = m["breaks_property"] in caught
    m["first_violation_per_check"] = {k: checks[k][2][:220] for k in caught}
    m["matrix_ran"] = "tools/matrix_parallel.sh (quick checks against a scratch worktree of /repo's HEAD with the patch applied)"
    m["matrix_checks_run"] = sorted(checks)
    json.dump(m, open(mp, "w"), indent=1)
    print(name, "caught by", caught, "inconclusive", m["inconclusive_quick_checks"])
