#!/bin/bash
# usage: tools/coverage.sh [scale] [checks...]
# What did the workloads actually drive? Builds the harness once with -Cinstrument-coverage (nightly, own target
# directory under /tmp, removed at the end), runs every check's quick workload at the given scale (default 0.3) and
# prints, for the source files of /repo's three crates, the regions that no monitor's workload executed. This is a
# workload-gap finder, not a check: it decides nothing, it only tells which branches of the code under test the
# verdicts of a run cannot speak about. Output: tools/coverage_report.txt (summary + uncovered lines).
set -u
cd "$(dirname "$0")/.."
scale=${1:-0.3}; shift
checks="$@"
[ -z "$checks" ] && checks=$(python3 -c "import json;print(' '.join(c['property_id'] for c in json.load(open('MANIFEST.json'))['checks']))")
T=/tmp/melverif-cov
rm -rf $T; mkdir -p $T/prof
BIN=$(dirname $(rustup which --toolchain nightly rustc))/../lib/rustlib/x86_64-unknown-linux-gnu/bin
export CARGO_NET_OFFLINE=true CARGO_TARGET_DIR=$T/target
export RUSTFLAGS="--cfg melstf_verif -Cinstrument-coverage"
export LLVM_PROFILE_FILE=$T/buildprof/build-%p-%m.profraw   # build scripts and proc macros are instrumented too
(cd harness && cargo +nightly build --release --offline --quiet --bin melverif) || { echo "coverage build failed"; rm -rf $T; exit 2; }
exe=$T/target/release/melverif
for id in $checks; do
  procs=1; threads=16
  case $id in C09|C11) procs=4; threads=1;; C03) threads=4;; esac
  for i in $(seq 0 $((procs-1))); do
    LLVM_PROFILE_FILE="$T/prof/$id-$i-%p.profraw" RAYON_NUM_THREADS=4 timeout 900 $exe $id --tier quick --seed ${VERIF_SEED:-1} \
      --shard $i --nshards $procs --threads $threads --scale $scale --out $T/out-$id-$i.json --journal $T/j-$id-$i.txt >/dev/null 2>&1 &
  done
  wait
  echo "ran $id"
done
$BIN/llvm-profdata merge -sparse $T/prof/*.profraw -o $T/all.profdata || { rm -rf $T; exit 2; }
srcs=$(ls /repo/src/*.rs /repo/src/state/*.rs /repo/lib/melvm/src/*.rs /repo/lib/tip911-stakeset/src/*.rs | grep -v verif.rs)
{
  echo "# coverage of /repo by the quick workloads (scale $scale, seed ${VERIF_SEED:-1}, checks: $(echo $checks | tr '\n' ' '))"
  $BIN/llvm-cov report $exe -instr-profile=$T/all.profdata $srcs 2>/dev/null | cut -c1-200
  echo
  echo "# lines with an execution count of zero (test modules excluded)"
  $BIN/llvm-cov show $exe -instr-profile=$T/all.profdata $srcs -show-line-counts-or-regions=false 2>/dev/null \
    | python3 tools/cov_uncovered.py
} > tools/coverage_report.txt
rm -rf $T
tail -n +1 tools/coverage_report.txt | head -60
