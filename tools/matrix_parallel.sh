#!/bin/bash
# usage: tools/matrix_parallel.sh <seed-name> [checks...]
# Runs the quick checks against ONE stored seeded change without touching /repo: a scratch worktree of /repo's HEAD with
# the patch applied, and a scratch copy of the checks whose harness points at that worktree. Several of these can run
# side by side. Prints one line per check; removes everything it created. (The registered checks always run against
# /repo itself; this is only for filling the catch matrix of DESIGN section 16 faster.)
name=$1; shift
base=/tmp/mx/$name
rm -rf "$base"; mkdir -p "$base/verif/harness"
git -C /repo worktree add -q --detach "$base/repo" HEAD || exit 2
git -C "$base/repo" apply "/verif/seeded/$name/patch.diff" || { echo "$name PATCH-DOES-NOT-APPLY"; git -C /repo worktree remove --force "$base/repo"; rm -rf "$base"; exit 1; }
cp /verif/check /verif/known_findings.json "$base/verif/"
cp -r /verif/harness/Cargo.toml /verif/harness/Cargo.lock /verif/harness/.cargo /verif/harness/src "$base/verif/harness/"
sed -i "s|path = \"/repo|path = \"$base/repo|g" "$base/verif/harness/Cargo.toml"
checks="$@"
[ -z "$checks" ] && checks=$(python3 -c "import json;print(' '.join(c['property_id'] for c in json.load(open('/verif/MANIFEST.json'))['checks']))")
cd "$base/verif"
for id in $checks; do
  o=$(./check $id --tier quick 2>&1); rc=$?
  n=$(echo "$o" | grep -c '^VIOLATION')
  first=$(echo "$o" | grep -E -A1 '^VIOLATION|^INCONCLUSIVE' | grep -v '^VIOLATION' | head -1 | cut -c1-200)
  echo "$name $id rc=$rc violations=$n $first"
done
cd /
git -C /repo worktree remove --force "$base/repo"
rm -rf "$base"
