#!/usr/bin/env python3
"""usage: design_rows.py <name-prefix>   - prints the DESIGN section-16 table rows of the stored seeded changes whose
name starts with the prefix, from their meta.json (caught_by_quick_checks, owner_check_on_arrival)."""
import glob, json, sys
pre = sys.argv[1]
for f in sorted(glob.glob(f"/verif/seeded/{pre}*/meta.json")):
    m = json.load(open(f))
    caught = ", ".join(m.get("caught_by_quick_checks", [])) or (m.get("regress_with", m["breaks_property"]) + " (only the owner's check was run)")
    arrival = m.get("owner_check_on_arrival", "same")
    if len(arrival) > 60 and "anticipation" in arrival:
        arrival = "strengthened in anticipation (counted as a miss)"
    print(f"| `{m['name']}` | {m['breaks_property']} | {m['needs_to_manifest']} | {caught} | {arrival} |")
