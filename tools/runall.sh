#!/bin/bash
# usage: tools/runall.sh <tier> <seed...>   - runs every claimed check, prints one line per check
cd "$(dirname "$0")/.."
tier=${1:-quick}; shift
for seed in "${@:-1}"; do
  for id in $(python3 -c "import json;print(' '.join(c['property_id'] for c in json.load(open('MANIFEST.json'))['checks']))"); do
    s=$(date +%s)
    out=$(VERIF_SEED=$seed ./check $id --tier $tier 2>&1); rc=$?
    e=$(date +%s)
    echo "seed=$seed $id rc=$rc $((e-s))s $(echo "$out" | grep -E 'VIOLATION|INCONCLUSIVE|KNOWN' | head -3 | tr '\n' ' ')"
  done
done
