#!/usr/bin/env python3
"""Prints the seeded-change catch matrix (markdown) from /verif/seeded/*/meta.json."""
import json, glob, os
rows = []
for f in sorted(glob.glob("/verif/seeded/*/meta.json")):
    m = json.load(open(f))
    rows.append(m)
print("| seeded change | breaks | needs | caught by (quick checks) | before strengthening |")
print("|---|---|---|---|---|")
for m in rows:
    before = m.get("caught_before_strengthening")
    col = (', '.join(before) or '**none**') if before is not None else 'same'
    arr = str(m.get("owner_check_on_arrival", ""))
    if before is None and arr.startswith("missed"):
        col = "owner **missed** (only the owner's check was run on arrival)"
    elif before is None and arr.startswith("strengthened in anticipation"):
        col = "owner **missed** (strengthened in anticipation, before the first run)"
    elif before is None and arr.startswith("inconclusive"):
        col = "owner **inconclusive** on arrival (counted as a miss)"
    print(f"| `{m['name']}` | {m['breaks_property']} | {m['needs_to_manifest']} | {', '.join(m.get('caught_by_quick_checks', ['(matrix pending)'])) or '**none**'} | {col} |")
