#!/usr/bin/env python3
"""Prints the seeded-change catch matrix (markdown) from /verif/seeded/*/meta.json."""
import json, glob, os
rows = []
for f in sorted(glob.glob("/verif/seeded/*/meta.json")):
    m = json.load(open(f))
    rows.append(m)
print("| seeded change | breaks | needs | caught by (quick checks) | before strengthening |")
print("|---|---|---|---|---|")
for m in rows:
    before = m.get("caught_before_strengthening")
    col = (', '.join(before) or '**none**') if before is not None else 'same'
    if before is None and str(m.get("owner_check_on_arrival", "")).startswith("missed"):
        col = "owner **missed** (only the owner's check was run on arrival)"
    print(f"| `{m['name']}` | {m['breaks_property']} | {m['needs_to_manifest']} | {', '.join(m['caught_by_quick_checks']) or '**none**'} | {col} |")
