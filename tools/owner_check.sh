#!/bin/bash
# usage: tools/owner_check.sh <patch> <property> [more properties...]  - applies the patch to /repo, runs the quick check(s), reverts
cd "$(dirname "$0")/.."
patch=$1; shift
[ -n "$(git -C /repo status --short)" ] && { echo "/repo is not clean"; exit 2; }
git -C /repo apply "$patch" || { echo "PATCH DOES NOT APPLY TO /repo"; exit 1; }
for prop in "$@"; do
  o=$(./check $prop --tier quick 2>&1); rc=$?
  n=$(echo "$o" | grep -c '^VIOLATION')
  echo "$(basename $(dirname $(dirname $patch))) $prop rc=$rc violations=$n $(echo "$o" | grep -E -A1 '^VIOLATION|^INCONCLUSIVE' | grep -v '^VIOLATION' | head -2 | cut -c1-220 | tr '\n' ' ')"
done
git -C /repo checkout -- .
git checkout -q -- evidence 2>/dev/null
