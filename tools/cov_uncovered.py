#!/usr/bin/env python3
"""Reads `llvm-cov show` text on stdin and prints, per source file, the runs of lines whose execution count is zero
(everything from a `#[cfg(test)]` line to the end of a file is skipped: test modules are not code under test)."""
import re, sys

cur, in_tests, run = None, False, []


def flush():
    global run
    if run:
        a, b = run[0][0], run[-1][0]
        print(f"{cur}:{a}" + (f"-{b}" if b != a else ""))
        for n, s in run[:12]:
            print(f"    {n:5d}| {s.rstrip()[:150]}")
        if len(run) > 12:
            print(f"         ... {len(run) - 12} more")
    run = []


for line in sys.stdin:
    m = re.match(r"^(/\S+\.rs):$", line.strip())
    if m:
        flush()
        cur, in_tests = m.group(1), False
        continue
    m = re.match(r"^\s*(\d+)\|\s*([0-9.]+[kKMGE]?|)\|(.*)$", line)
    if not m or cur is None:
        continue
    n, cnt, src = int(m.group(1)), m.group(2), m.group(3)
    if "#[cfg(test)]" in src:
        in_tests = True
    if in_tests:
        flush()
        continue
    if cnt == "0":
        if run and run[-1][0] != n - 1:
            flush()
        run.append((n, src))
    else:
        flush()
flush()
