#!/usr/bin/env python3
"""Regenerates /verif/MANIFEST.json from the table below (claimed checks) and properties.jsonl."""
import json, os, subprocess
ROOT = os.path.dirname(os.path.dirname(os.path.abspath(__file__)))
ids = [json.loads(l)["id"] for l in open(os.path.join(ROOT, "properties.jsonl"))]

# id -> (technique, level text, level note, design ref)
CLAIMED = {
 "C01": ("conservation ledger monitor over hooked snapshots: supply vector before/after every batch and around each of the 7 sealing phases versus an allowance computed from the inputs",
         "Thousands of batches and sealed blocks of generated histories (all kinds, dependent/shuffled batches, every pool-name spelling, wrong-kind pool data, values to 2^120, custom/test/main networks at fabricated heights); supply = coins + reserves by the slot's canonical denominations + fee pool + tips; any increase beyond faucet / new-token / liquidity-for-named-deposit / reference peg nudge / TIP-909 schedule is a violation attributed to its phase.",
         "ERG minting is checked under C18; deposits inside the documented legacy window (mainnet/testnet below 978392) are excluded; the peg allowance is the exact reference nudge for MEL and a constant-product upper bound for SYM.", "6/C01"),
 "C02": ("reference-model monitor over hooked coin-tree snapshots before/after every batch of generated histories",
         "Every batch of thousands of generated histories (all transaction kinds, dependent members in every order, one hostile mutation) is checked against a map-based UTXO model: accepted => necessary validity conditions held and coin set = prior - inputs + outputs exactly; rejected => every observable component unchanged.",
         "Covers generated batches only; validity model checks necessary conditions (sufficiency is observed, not claimed); covenants outside the reference interpreter's domain give no claim.", "6/C02"),
 "C03": ("equality-across-executions monitor: one set of transactions under all/random permutations x rayon pools of 1/2/4/16 threads x repeated HashSet iteration orders x fresh processes, plus ThreadSanitizer in the thorough tier",
         "Sets of 1-5 members under all permutations (up to 4: on every pool size), larger sets under random permutations; members independent, chained, DAG-shaped, with an invalid member or a duplicate; all outcomes (accepted?, sealed header) equal, equal to one-at-a-time application in dependency order; the resulting block applied 6 times with rebuilt HashSets; a seeded scenario re-run in 2 fresh processes. The thorough tier re-runs the workload in a ThreadSanitizer build and counts race reports.",
         "One set in five is a single invalid transaction with a rule-exempt part (new-token output next to an unbalanced one), run 16 times; sets of one or two members run four times per (order, pool). Schedules are varied by pool size, permutation, HashSet seed and process, not enumerated; a TSan build failure is reported as 'sanitizer unavailable', never as a violation.", "6/C03"),
 "C04": ("differential monitor of apply_tx acceptance against the reference interpreter evaluated per input on the reference environment heap",
         "Tens of thousands of (fabricated state, transaction) cases in which only authorisation is in question: 1-8 inputs from 13 covenant families (standard signatures with wrong key/slot/message/truncation/tampering, hash-, time-, index-, value-, data-, height-, parent-index-, output-count-bound, self-hash, random programs), inputs sharing a covenant hash with different environments, missing and corrupted covenants; accepted => every input authorised; for standard signature covenants all authorised => accepted.",
         "Covenant families include loops that a conditional jump leaves. One case in 150 has 250-309 inputs with the questionable ones around and beyond position 255. Sufficiency is claimed for the standard signature covenants only; covenants leaving the reference interpreter's domain give no claim.", "6/C04"),
 "C05": ("exact-arithmetic monitor of fee_pool/tips (hooked snapshots) per batch and around the proposer phase, plus threshold probes at min-1 / min / min+k found by fixpoint",
         "Random histories at multipliers {0,1,2,100,10^6,2^40,2^64,2^100} and thousands of threshold probes (0-8 inputs, 1-60 outputs, extra covenants of every weight class incl. heavy loops and undecodable bytes): accepted => fee >= floor(refweight*mult/65536); below => rejected; pool += sum(min), tips += sum(fee-min) exactly; reward coin = pool>>16 + tips to the destination at the current height with pool/tips debited exactly; no action => nothing moves.",
         "Pending tips must equal what the block's own accepted transactions paid above their minimum, before every batch and at the start of sealing. Reference weight uses the reference covenant weight (cross-checked against the implementation by C12); multipliers above 2^100 and saturating pools are exercised by C09 only.", "6/C05"),
 "C06": ("differential monitor of SealedState::apply_block against the statement's own criterion recomputed through the public API, on honest and singly-mutated blocks",
         "Every block of random histories (all network classes, TIP-908 included) is applied to its parent as produced and under one mutation each of the 11 header fields, a transaction removed/added/altered, the proposer action added/dropped/changed, and to the wrong parent; accept iff the batch is valid and the recomputed header equals the declared one; the returned state has the declared header.",
         "A block sealed by the honest producer (batch after batch, incl. speed-raising mints followed by further batches) must be accepted whatever the one-batch recomputation says. The expected header is computed with the implementation's own apply_tx_batch and seal (that is what the property states); their correctness is the business of the other properties.", "6/C06"),
 "C07": ("structural monitor of every sealed state against an independent reference Merkle function, plus operation-order and single-component sensitivity experiments",
         "Chaining (height, previous, network, history(h) for recorded ancestors); coins/pools/history/stakes/transactions roots recomputed from iterated contents (sparse and TIP-908 dense); inclusion proofs of entries verified by the library and by a reference verifier, tampered values and absent keys; every block transaction at its sorted position; equal maps built by different operation orders and detours; sibling states differing in one of 14 components.",
         "Hashes that are not in the block (all-zero, all-one, neighbours of present ones) must have no position. Sibling states draw fee pool, fee multiplier and DOSC speed from 0..2^128-2 and their headers must carry the three scalars unchanged. blake3 is trusted; entries are sampled (24 per tree per state) when trees are larger.", "6/C07"),
 "C08": ("two-lineage monitor: original state versus a state rebuilt from serialized block + rebuilt stake set + node-by-node copy of the content-addressed store, fed identical continuations",
         "After every sealed block of random histories a restarted lineage is created and fed the same next 5 blocks (valid and hostile batches, proposer actions); accept/reject and the whole header must agree after every step. Restart points cover with/without action, pending tips, empty blocks, epoch boundaries, testnet 499->500 and fabricated mainnet activation heights.",
         "The copied store is an in-process deep copy (no shared memory with the original), not a real disk.", "6/C08"),
 "C09": ("panic/abort monitor (catch_unwind + panic hook recording message, location and originating crate; one process per shard with a journal) around every API call on hostile workloads; stack-depth probes in subprocesses; valgrind memcheck and AddressSanitizer shards in the thorough tier",
         "Random histories on all network classes with one hostile mutation per batch (16 field mutators + byte-level mutation that still deserializes), degenerate requests (zero-valued pool requests, empty/garbage/partial MelPoW proofs at all difficulties, undecodable stake documents, faucet-minted liquidity tokens, maximal values), extreme proposer deltas; apply_tx_batch, seal, next_unsealed, apply_block, confirm, from_block are all called under the monitor; deterministic probes replay the crash-class inputs of DESIGN section 9.",
         "Supply kept below 2^127 by construction (the property's precondition); overflow traps that exist only because dependency generics are instantiated with overflow checks are excluded (checked against a production-like build); hangs are bounded by the driver's watchdog and reported inconclusive. Thorough tier adds a valgrind memcheck shard (observer) and an AddressSanitizer shard (a memory error there is a violation).", "6/C09"),
 "C10": ("differential monitor against an independent reference interpreter, final result through the public API and pc/stack/heap in lockstep through the hooked executor; AddressSanitizer and Miri stages in the thorough tier",
         "All programs of length <= 4 over a 16-instruction alphabet x 3 heaps are enumerated; ~10^5 (quick) type-aware random programs with counted/nested loops, jumps in and out of loops, boundary operands and mixed types, random decodable lists and environment-reading programs over random transactions/headers are run on both interpreters; millions of intermediate machine states are compared per run.",
         "Shift counts are taken modulo 256 (DESIGN 5.6). Corners the specification does not pin down (loop body past the end or empty, lengths > 2^22) are excluded and counted; ed25519 and blake3 are trusted. Thorough tier adds an AddressSanitizer run of half the quick workload and a token run under Miri (observers: reports are recorded; a monitor violation seen there counts).", "6/C10"),
 "C11": ("resource monitors on adversarial program families: hooked step counter vs weight, hooked weigh-work counter, counting allocator, with explicit polynomial budgets",
         "Nested/sibling/overrunning loops up to depth 22 (40 thorough), jump-heavy code, and byte/vector self-append doubling up to 70 rounds followed by each consuming opcode in every operand position are grown until the first budget excess: executed instructions <= weight exactly; weighing work <= 4n^2+64 visits; peak memory <= 1 MiB + 4 KiB*(weight+code+heap), cumulative <= 64x.",
         "Paid-work probes (instructions executed inside apply_tx versus the fee offered) include covenants whose weight no fee can cover, jumped over or listed unused. Budgets are explicit constants chosen with >= 100x slack over linear-time behaviour; wall-clock is recorded but never decides. Lengths >= 2^64 trap only under overflow checks inside the catvec dependency and are excluded (verified silent in a production-like build).", "6/C11"),
 "C12": ("exhaustive + randomized differential monitor of the codec against an independent reference decoder/encoder",
         "All 16.8M byte strings of length <= 3 are enumerated on every run, plus operand-class, truncation, trailing-byte, mutated and random-instruction-list cases; each is checked for decodability agreement, both round trips, and weight/hash equality bytes vs instructions vs reference.",
         "Exhaustive only up to 3 bytes; longer inputs are sampled, including programs of up to ~135000 instructions around the 2^8/2^16/2^17 instruction counts. The reference decoder was written from the opcode table. Thorough tier adds a token run under Miri.", "6/C12"),
 "C13": ("stake-model monitor: registry, vote tallies and stake commitment compared after every batch/block, plus spend attempts on every stake coin across real epoch boundaries",
         "Histories fabricated 1-3 blocks before k*200000 on networks/heights outside the legacy windows, with pre-existing stakes ending in the current/next/later epochs and stake transactions in every ordering of (current,start,end), amount mismatches, wrong denominations and undecodable documents; registered set, votes()/total_votes() over 5 epochs and stakes_hash follow the model; each registered stake's coin is refused (same batch, same block, later blocks) until the epoch after `end`, then accepted.",
         "Legacy windows (mainnet/testnet below 500000/900000) are outside the property's domain and exercised under C09.", "6/C13"),
 "C14": ("exhaustive subset enumeration monitor on SealedState::confirm over fabricated stake distributions",
         "For every weight tuple from {1,2,3,5,8}^n (n<=4 exhaustive, n=5,6 sampled) every signer subset is confirmed against real signatures and compared with the 2/3 rule in exact arithmetic; corrupted, swapped, foreign and truncated signatures must never confirm; supersets never un-confirm; valid signatures of non-voters change nothing; the full proofs of a state, its child and the child's sibling are offered to one another after each has confirmed its own and must not confirm.",
         "Stake sets are fabricated through from_block; ed25519 is trusted.", "6/C14"),
 "C15": ("settlement monitor over hooked snapshots around the swap, deposit and withdrawal phases against exact big-integer arithmetic",
         "Pool-heavy histories (every kind x every spelling of a pool name, 1-30 requests per pool on both sides, amounts 1..2^120, built-in/custom/new pools): R1 only genuine requests' outputs change (everything else bit-identical, also outside the phases), R2 pro-rata floors, R3 product never falls, R4 payout <= constant product less 0.5%, R5 reserves credited exactly / debited within dust, R6 mint/burn formulas, issued <= minted and proportional, R7 each side only takes and pays the canonical denomination of its storage slot.",
         "Blocks inside the documented legacy window (mainnet/testnet below 978392) are excluded; payouts capped at the maximum coin value and saturating reserves are excluded and counted.", "6/C15"),
 "C16": ("structural invariant monitor at quiescent points: after every seal the pools tree and the coin tree are walked from the hooked snapshot",
         "Pool-heavy histories of 8-40 blocks (several deposits per pool per block with equal/perfect-square/repeated amounts, withdraw-everything, one-sided floods, subsidies, pegging): built-in pools exist with both reserves non-zero; no pool entry under a name no transaction used; for every pool, liquidity tokens summed over all unspent coins <= recorded liqs.",
         "Histories in which a test-network faucet minted a liquidity-token denomination are excluded from the backing rule (a faucet can mint any denomination by design) and exercised under C09.", "6/C16"),
 "C17": ("enumerating monitor of header().fee_multiplier across seal(Some(delta)) against an exact big-integer step",
         "All 256 deltas x multipliers 0..300 and around every power of two up to 2^70, before and after TIP-901, plus long runs of extreme deltas; exact expected value, no wrap, no panic, and unchanged without an action.",
         "Multipliers beyond 2^70 are checked for totality and direction only.", "6/C17"),
 "C18": ("differential monitor of DoscMint acceptance and header dosc_speed against a reference that calls melpow with the harness's own hash functions and exact reward arithmetic",
         "Real proofs (legacy and TIP-910 hash, difficulty 1-10 quick / 14 thorough), coin ages 1-200, previous speeds 1-10^6, ERG at reward-1/reward/reward+1, mainnet age rule, corruptions (flipped byte, dropped node, other coin, other height, stated difficulty +-1, garbage data), several mints per block in different orders: accept iff decodes, verifies for the right puzzle, ERG <= reference reward and (mainnet) age >= 100; dosc_speed = max(previous, demonstrated) and never decreases.",
         "For the random workload 'the proof verifies' is melpow's verifier called with the harness's own hash functions; that verifier does not tie the openings to the commitment, so every run also offers forged proofs (labels made up, one hash per challenged leaf, difficulties 6-56, both hashes, a custom network and mainnet) - their acceptance is the known finding F23 (known_findings.json, DESIGN section 13), printed as KNOWN-FINDING and not counted. One case in eight stands on a recorded DOSC speed of 2^64..2^96. Honest difficulties are limited by what can be proven in the time budget.", "6/C18"),
 "C19": ("exactly-once monitor over faucet application histories on all nine networks with replay at every later point and after restart",
         "Faucet transactions of many shapes (0-255 outputs, all denominations, the grandfathered mainnet transaction on every network) are applied and replayed in the same batch, a later batch of the same block, 1-30 blocks later, with a different sigs field, inside other batches, and after a from_block restart on a copied store; on mainnet only the grandfathered hash may be accepted, elsewhere each hash at most once per lineage.",
         "Repeated acceptance of the grandfathered transaction on mainnet itself is outside the property's wording and is not flagged.", "6/C19"),
 "C20": ("structural invariant monitor: census of the coin tree versus its count entries after every accepted batch, seal and next_unsealed",
         "Histories of all kinds on custom networks (TIP-906 from genesis) and testnet/mainnet histories fabricated just below the activation height and run across it; for every covenant hash the count entry must equal the number of unspent coins, with no orphan or zero entry; the activation census is checked at the boundary.",
         "Entries are classified by serialized shape (coin vs u64 count).", "6/C20"),
}

def short(cmd):
    return subprocess.run(cmd, shell=True, capture_output=True, text=True).stdout.strip()

hook_commits = short("git -C /repo log --format=%H --grep='^verif hook' ").split()

checks = []
for i in ids:
    if i in CLAIMED:
        tech, text, note, ref = CLAIMED[i]
        checks.append({
            "property_id": i,
            "quick_cmd": f"./check {i} --tier quick",
            "thorough_cmd": f"./check {i} --tier thorough",
            "evidence_file": f"/verif/evidence/{i}.json",
            "replay_cmd_template": f"./check {i} --replay {{path}}",
            "engine": "melverif",
            "level_claimed": {"category": "exploration", "text": text, "design_ref": f"DESIGN.md section {ref}"},
            "level_note": note,
            "technique": "runtime monitoring: " + tech,
        })
m = {
 "version": 1,
 "setup_cmd": "cd /verif/harness && CARGO_NET_OFFLINE=true cargo build --release --offline",
 "hooks": {
  "guard": "melstf_verif",
  "enable": "rustflags --cfg melstf_verif in /verif/harness/.cargo/config.toml; the harness crate has path dependencies on /repo, /repo/lib/melvm, /repo/lib/tip911-stakeset, so every check rebuilds from /repo's working tree",
  "baseline_off_cmd": "/verif/baseline.sh",
  "source_commits": hook_commits,
  "add_only": True,
 },
 "engines": [{"name": "melverif", "path": "/verif/harness", "serves_properties": sorted(CLAIMED),
              "kind_free_text": "Rust harness: seeded workload generators, reference models and monitors over hooked state snapshots; python driver /verif/check shards, watches, classifies against known_findings.json and writes evidence"}],
 "checks": checks,
 "not_applicable": [{"property_id": i, "reason": "monitor not built yet in this session (work in progress; will be claimed once its monitor exists)"} for i in ids if i not in CLAIMED],
 "notes": "Verdicts are three-valued: exit 0 held on what was observed, exit 1 VIOLATION, exit 2 INCONCLUSIVE (never a VIOLATION line). Known findings: /verif/known_findings.json.",
}
json.dump(m, open(os.path.join(ROOT, "MANIFEST.json"), "w"), indent=1)
print("claimed:", sorted(CLAIMED))
