use melverif::Params;

#[global_allocator]
static GLOBAL: melverif::alloc::Counting = melverif::alloc::Counting;
use std::io::Write;

fn arg(args: &[String], name: &str) -> Option<String> {
    args.iter().position(|a| a == name).and_then(|i| args.get(i + 1).cloned())
}

fn main() {
    let args: Vec<String> = std::env::args().collect();
    if args.len() < 2 {
        eprintln!("usage: melverif <Cxx> [--tier quick|thorough] [--seed N] [--shard i] [--nshards n] [--threads t] [--scale f] [--out file] [--only-case seed] [--emit-fps]");
        std::process::exit(2);
    }
    let property = args[1].clone();
    if property == "C03-digest" {
        let seed: u64 = arg(&args, "--seed").and_then(|s| s.parse().ok()).unwrap_or(1);
        melverif::guard::install();
        println!("DIGEST {:016x}", melverif::mon::c03::scenario_digest(seed));
        return;
    }
    if property == "probe-stack" {
        // melverif probe-stack <family> <size> <stack KiB> <exec|apply>: see mon::c09::probe_stack. The probe runs on
        // a thread with the given stack (spawned threads have 2 MiB by default, the main thread 8 MiB); a stack
        // overflow aborts the process, so the caller runs this in a subprocess and looks at how it ended.
        let family = args.get(2).cloned().unwrap_or_default();
        let size: u16 = args.get(3).and_then(|s| s.parse().ok()).unwrap_or(1000);
        let stack_kib: usize = args.get(4).and_then(|s| s.parse().ok()).unwrap_or(2048);
        let mode = args.get(5).cloned().unwrap_or_else(|| "exec".into());
        let h = std::thread::Builder::new().stack_size(stack_kib << 10).spawn(move || melverif::mon::c09::probe_stack(&family, size, &mode)).unwrap();
        match h.join() {
            Ok(s) => println!("RETURNED {}", s),
            Err(_) => println!("PANICKED"),
        }
        return;
    }
    let thorough = arg(&args, "--tier").map(|t| t == "thorough").unwrap_or(false);
    let seed: u64 = arg(&args, "--seed").and_then(|s| s.parse().ok()).unwrap_or(1);
    let shard0: u64 = arg(&args, "--shard").and_then(|s| s.parse().ok()).unwrap_or(0);
    let nshards: u64 = arg(&args, "--nshards").and_then(|s| s.parse().ok()).unwrap_or(1);
    let threads: u64 = arg(&args, "--threads").and_then(|s| s.parse().ok()).unwrap_or(1);
    let scale: f64 = arg(&args, "--scale").and_then(|s| s.parse().ok()).unwrap_or(1.0);
    let only_case: Option<u64> = arg(&args, "--only-case").and_then(|s| s.parse().ok());
    let out = arg(&args, "--out");
    let journal = arg(&args, "--journal");
    let emit_fps = args.iter().any(|a| a == "--emit-fps");
    melverif::guard::install();

    // `threads` shards run inside this process: shard ids shard0*threads .. shard0*threads+threads-1 of nshards*threads
    let mut handles = vec![];
    for t in 0..threads {
        let p = Params {
            property: property.clone(),
            thorough,
            seed,
            shard: shard0 * threads + t,
            nshards: nshards * threads,
            scale,
            only_case,
            journal: journal.clone(),
        };
        handles.push(
            std::thread::Builder::new()
                .stack_size(256 << 20)
                .spawn(move || melverif::mon::run(&p))
                .unwrap(),
        );
    }
    let mut total = melverif::report::Report::new(&property);
    let mut thread_failures = 0;
    for h in handles {
        match h.join() {
            Ok(r) => total.merge(r),
            Err(e) => {
                let msg = e.downcast_ref::<String>().cloned().or_else(|| e.downcast_ref::<&str>().map(|s| s.to_string())).unwrap_or_default();
                eprintln!("harness thread died: {}", msg);
                total.note(&format!("harness thread died: {}", msg));
                thread_failures += 1
            }
        }
    }
    if thread_failures > 0 {
        total.note(&format!("{} worker thread(s) died with an uncaught panic in the harness", thread_failures));
        total.count_n("harness-thread-failures", thread_failures);
    }
    let js = total.to_json(emit_fps);
    let text = serde_json::to_string_pretty(&js).unwrap();
    match out {
        Some(path) => std::fs::File::create(path).unwrap().write_all(text.as_bytes()).unwrap(),
        None => println!("{}", text),
    }
}
