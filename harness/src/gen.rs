//! Workload generator: a `World` owns the real chain state, what an honest wallet would know
//! about it, and builds valid and hostile transactions, batches and blocks from a seeded PRNG.
use std::collections::{BTreeMap, HashMap, HashSet};

use bytes::Bytes;
use melstf::StateError;
use melstructs::{
    Address, BlockHeight, CoinData, CoinDataHeight, CoinID, CoinValue, Denom, Header, NetID, PoolKey,
    ProposerAction, StakeDoc, Transaction, TxHash, TxKind,
};
use stdcode::StdcodeSerializeExt;
use tmelcrypt::HashVal;

use crate::guard::{guarded, PanicInfo};
use crate::model;
use crate::rng::Rng;
use crate::world::*;

#[derive(Clone, Debug)]
pub struct Owner {
    pub key: Key,
    pub cov_new: Vec<u8>,
    pub addr_new: Address,
    pub cov_legacy: Vec<u8>,
    pub addr_legacy: Address,
}

#[derive(Clone, Debug)]
pub enum Unlock {
    Anyone(Vec<u8>),
    New(usize),
    Legacy(usize),
}

/// Relative weights of the operations a scenario performs.
#[derive(Clone, Debug)]
pub struct Profile {
    pub normal: u64,
    pub newcustom: u64,
    pub faucet: u64,
    pub swap: u64,
    pub deposit: u64,
    pub withdraw: u64,
    pub stake: u64,
    pub doscmint: u64,
    pub hostile: u64,
    /// per-mille chance that a pool request spells its pool key non-canonically
    pub odd_spelling_permille: u64,
    /// per-mille chance of wrong-kind pool data (a Normal/Stake/... tx carrying a pool key)
    pub wrong_kind_permille: u64,
    pub dependent_permille: u64,
    pub max_batch: usize,
    pub big_values_permille: u64,
    pub degenerate_permille: u64,
    /// per-mille chance that an ERG mint does enough work to raise the recorded DOSC speed (costly: up to 2^21 hashes)
    pub fast_mint_permille: u64,
    /// per-mille chance of a payment that fans out into ~250 coins at one address (counts beyond one-byte encodings)
    pub crowd_permille: u64,
    /// per-mille chance (per block of `run_history`) of a block with 65-200 transactions
    pub big_block_permille: u64,
}

impl Default for Profile {
    fn default() -> Self {
        Profile {
            normal: 30,
            newcustom: 6,
            faucet: 8,
            swap: 14,
            deposit: 8,
            withdraw: 6,
            stake: 4,
            doscmint: 3,
            hostile: 10,
            odd_spelling_permille: 120,
            wrong_kind_permille: 80,
            dependent_permille: 350,
            max_batch: 8,
            big_values_permille: 60,
            degenerate_permille: 0,
            fast_mint_permille: 0,
            crowd_permille: 0,
            big_block_permille: 0,
        }
    }
}

pub struct BatchEvent {
    pub pre: View,
    pub txs: Vec<Transaction>,
    pub labels: Vec<String>,
    pub result: Result<Result<(), StateError>, PanicInfo>,
    pub post: View,
    pub last_header: Header,
    pub stakes_before: HashMap<TxHash, StakeDoc>,
}

impl BatchEvent {
    pub fn accepted(&self) -> bool {
        matches!(self.result, Ok(Ok(())))
    }
}

pub struct SealEvent {
    pub height: u64,
    pub net: NetID,
    pub action: Option<ProposerAction>,
    pub block_txs: Vec<Transaction>,
    /// seal-begin, after-builtins, after-swaps, after-deposits, after-withdrawals, after-pegging, after-tip909, after-proposer
    pub phases: Vec<View>,
    pub panic: Option<PanicInfo>,
    pub header: Option<Header>,
    pub parent_header: Option<Header>,
}

pub struct World {
    pub rng: Rng,
    pub db: Db,
    pub net: NetID,
    pub owners: Vec<Owner>,
    pub unlock: HashMap<Address, Unlock>,
    pub cur: Unsealed,
    pub tip: Option<Sealed>,
    /// the sealed state before `tip`
    pub prev_tip: Option<Sealed>,
    pub known_ids: HashMap<[u8; 32], CoinID>,
    pub pool_slots: HashMap<[u8; 32], Vec<u8>>,
    pub utxo: BTreeMap<CoinID, CoinDataHeight>,
    pub block_txs: Vec<Transaction>,
    pub customs: Vec<Denom>,
    pub my_pools: Vec<PoolKey>,
    pub faucets_done: Vec<Transaction>,
    pub profile: Profile,
    pub allow_faucet_liq: bool,
    /// deposits prefer equal / perfect-square amounts and repeat the previous deposit's pool
    pub twin_deposits: bool,
    /// when set, pool requests name this pool whether or not the rules list it yet (a user-created
    /// pool under the name of a built-in one that is not enabled yet)
    pub force_pool: Option<PoolKey>,
    pub last_deposit: Option<(PoolKey, u128, u128)>,
    pub dead: bool,
    pub origin: String,
}

pub fn make_owners(seed: u64, n: usize) -> Vec<Owner> {
    (0..n)
        .map(|i| {
            let key = key_n(seed, i as u64);
            let cov_new = ed25519_new_cov(&key.pk);
            let cov_legacy = ed25519_legacy_cov(&key.pk);
            Owner { key, addr_new: addr_of(&cov_new), cov_new, addr_legacy: addr_of(&cov_legacy), cov_legacy }
        })
        .collect()
}

pub fn is_custom(d: &Denom) -> bool {
    matches!(d, Denom::Custom(_))
}

pub fn destroy_addr() -> Address {
    Address(HashVal([0u8; 32]))
}

pub const FEE_MULTS: [u128; 8] = [0, 1, 2, 100, 1_000_000, 1 << 40, 1 << 64, 1u128 << 100];

impl World {
    fn base(rng: Rng, db: Db, net: NetID, cur: Unsealed, tip: Option<Sealed>, owners: Vec<Owner>, origin: String) -> World {
        let mut unlock = HashMap::new();
        let at = always_true_cov();
        unlock.insert(addr_of(&at), Unlock::Anyone(at));
        for (i, o) in owners.iter().enumerate() {
            unlock.insert(o.addr_new, Unlock::New(i));
            unlock.insert(o.addr_legacy, Unlock::Legacy(i));
        }
        let mut w = World {
            rng,
            db,
            net,
            owners,
            unlock,
            cur,
            tip,
            prev_tip: None,
            known_ids: HashMap::new(),
            pool_slots: HashMap::new(),
            utxo: BTreeMap::new(),
            block_txs: vec![],
            customs: vec![],
            my_pools: vec![],
            faucets_done: vec![],
            profile: Profile::default(),
            allow_faucet_liq: false,
            twin_deposits: false,
            force_pool: None,
            last_deposit: None,
            dead: false,
            origin,
        };
        for k in [
            PoolKey::new(Denom::Mel, Denom::Sym),
            PoolKey::new(Denom::Mel, Denom::Erg),
            PoolKey::new(Denom::Erg, Denom::Sym),
        ] {
            w.register_pool_bytes(&k.to_bytes());
        }
        w
    }

    /// A world started from a genesis configuration at height 0.
    pub fn from_genesis(seed: u64, net: NetID, fee_multiplier: u128, fee_pool: u128, init_denom: Denom, init_value: u128) -> World {
        let mut rng = Rng::new(seed);
        let owners = make_owners(seed, 4);
        let db = new_db();
        let init = CoinData { covhash: owners[0].addr_new, value: CoinValue(init_value), denom: init_denom, additional_data: Bytes::new() };
        let cur = genesis(&db, net, init, fee_pool, fee_multiplier, BTreeMap::new());
        let r2 = rng.fork(1);
        let mut w = World::base(r2, db, net, cur, None, owners, format!("genesis net={:?} mult={} pool={}", net, fee_multiplier, fee_pool));
        w.learn_id(CoinID::zero_zero());
        w.refresh();
        w
    }

    /// A world started from a fabricated sealed state at `height` holding a spread of coins.
    pub fn fabricated(seed: u64, net: NetID, height: u64, fee_multiplier: u128, fee_pool: u128) -> World {
        World::fabricated_staked(seed, net, height, fee_multiplier, fee_pool, 0)
    }

    /// Like `fabricated`, with `n_stakes` pre-existing stakes (and their staked coins) whose ends fall in the
    /// current epoch, the next one and later ones.
    pub fn fabricated_staked(seed: u64, net: NetID, height: u64, fee_multiplier: u128, fee_pool: u128, n_stakes: usize) -> World {
        let mut rng = Rng::new(seed ^ 0xfab);
        let owners = make_owners(seed, 4);
        let db = new_db();
        let mut fab = Fab::new(net, height);
        fab.fee_multiplier = fee_multiplier;
        fab.fee_pool = fee_pool;
        // a low recorded DOSC speed lets small proofs raise it (and earn ERG)
        fab.dosc_speed = *rng.pick(&[1u128, 3, 40, MICRO]);
        fab.parent_dosc_speed = fab.dosc_speed;
        let at = addr_of(&always_true_cov());
        let mut ids = vec![];
        let coin_h = height.saturating_sub(1);
        for i in 0..24u64 {
            let owner = &owners[(i % 4) as usize];
            let covhash = match i % 6 {
                0 | 1 | 2 => owner.addr_new,
                3 => owner.addr_legacy,
                _ => at,
            };
            let denom = match i % 8 {
                0 | 1 | 2 | 3 => Denom::Mel,
                4 | 5 => Denom::Sym,
                _ => Denom::Erg,
            };
            let value = match i % 5 {
                0 => 1u128 << 100,
                1 => 1_000_000_000_000_000,
                2 => 50_000_000_000,
                3 => 1u128 << 80,
                _ => 7_000_000,
            };
            let id = CoinID { txhash: TxHash(tmelcrypt::hash_keyed(b"fabcoin", (seed ^ i).to_be_bytes())), index: (i % 3) as u8 };
            fab.coins.push((
                id,
                CoinDataHeight {
                    coin_data: CoinData { covhash, value: CoinValue(value), denom, additional_data: Bytes::new() },
                    height: BlockHeight(coin_h),
                },
            ));
            ids.push(id);
        }
        let epoch = height / STAKE_EPOCH;
        for i in 0..n_stakes {
            let txhash = TxHash(tmelcrypt::hash_keyed(b"fabstake", (seed ^ i as u64).to_be_bytes()));
            let (s, e) = match i % 4 {
                0 => (epoch.saturating_sub(1), epoch),
                1 => (epoch, epoch + 1),
                2 => (epoch + 1, epoch + 3),
                _ => (0, epoch + 2),
            };
            let v = 1_000_000 + (i as u128) * 7;
            let owner = &owners[i % 4];
            fab.stakes.push((txhash, StakeDoc { pubkey: owner.key.pk, e_start: s, e_post_end: e, syms_staked: CoinValue(v) }));
            let id = CoinID { txhash, index: 0 };
            fab.coins.push((id, CoinDataHeight { coin_data: CoinData { covhash: owner.addr_new, value: CoinValue(v), denom: Denom::Sym, additional_data: Bytes::new() }, height: BlockHeight(coin_h) }));
            ids.push(id);
        }
        let sealed = fab.build(&db);
        let cur = sealed.next_unsealed();
        let r2 = rng.fork(2);
        let mut w = World::base(r2, db, net, cur, Some(sealed), owners, format!("fabricated net={:?} height={} mult={} pool={}", net, height, fee_multiplier, fee_pool));
        for id in ids {
            w.learn_id(id);
        }
        w.refresh();
        w
    }

    /// Random world: network class, start height near a rule boundary, multiplier.
    pub fn random(seed: u64) -> World {
        let mut r = Rng::new(seed ^ 0x5eed);
        let net = *r.pick(&[
            NetID::Custom02,
            NetID::Custom02,
            NetID::Custom03,
            NetID::Custom08,
            NetID::Custom08,
            NetID::Custom05,
            NetID::Testnet,
            NetID::Mainnet,
        ]);
        let mult = if r.chance(1, 2) { 0 } else { *r.pick(&FEE_MULTS[..6]) };
        let pool = match r.below(4) {
            0 | 1 => 0,
            2 => r.below(70_000) as u128,
            _ => r.loguniform(70),
        };
        if r.chance(1, 3) && net != NetID::Mainnet {
            let denom = if r.chance(3, 4) { Denom::Mel } else { Denom::Sym };
            World::from_genesis(seed, net, mult, pool, denom, 1u128 << 100)
        } else {
            let height = match net {
                // incl. a few blocks below every mainnet activation height, so that histories cross them with real blocks
                NetID::Mainnet => *r.pick(&[1_000_000u64, 1_047_998, 1_048_010, 1_199_998, 2_000_000, 978_400, 940_000, 100_000, 829_993, 829_997, 179_995, 949_995, 978_387, 42_696, 899_996, 499_996]),
                NetID::Testnet => *r.pick(&[600u64, 1_000_000, 199_998, 2_000, 10, 400]),
                _ => *r.pick(&[1u64, 5, 199_997, 1_000, 950_010, 4_000_000]),
            };
            World::fabricated(seed, net, height, mult, pool)
        }
    }

    pub fn height(&self) -> u64 {
        self.cur.verif_snap("h").height.0
    }
    pub fn fee_multiplier(&self) -> u128 {
        self.cur.verif_snap("m").fee_multiplier
    }

    pub fn learn_id(&mut self, id: CoinID) {
        self.known_ids.insert(coin_key(&id), id);
    }
    pub fn register_pool_bytes(&mut self, b: &[u8]) {
        self.pool_slots.insert(pool_slot_key(b), b.to_vec());
    }
    pub fn learn_tx(&mut self, tx: &Transaction) {
        let h = tx.hash_nosigs();
        for i in 0..tx.outputs.len().min(256) {
            self.learn_id(CoinID { txhash: h, index: i as u8 });
        }
        // a withdrawal synthesises output 1
        self.learn_id(CoinID { txhash: h, index: 1 });
        if tx.kind == TxKind::Faucet {
            self.learn_id(faucet_marker(h));
        }
        if let Some(pk) = PoolKey::from_bytes(&tx.data) {
            let b = pk.to_bytes();
            self.register_pool_bytes(&b);
        }
    }

    /// Re-reads the wallet from the real state (coins whose id the generator knows).
    pub fn refresh(&mut self) {
        let v = view_of(&self.db, &self.cur, "refresh");
        self.refresh_from(&v);
    }
    pub fn refresh_from(&mut self, v: &View) {
        self.utxo.clear();
        for (k, c) in v.coin_entries() {
            if let Some(id) = self.known_ids.get(k) {
                self.utxo.insert(*id, c);
            }
        }
    }

    pub fn last_header(&self) -> Header {
        match &self.tip {
            Some(t) => t.header(),
            None => self.cur.clone().seal(None).header(),
        }
    }

    pub fn stakes_now(&self) -> HashMap<TxHash, StakeDoc> {
        self.cur.verif_stakes().into_iter().collect()
    }

    // -----------------------------------------------------------------------------------------
    // driving the real state

    pub fn apply_batch(&mut self, txs: Vec<Transaction>, labels: Vec<String>) -> BatchEvent {
        let pre = view_of(&self.db, &self.cur, "pre-batch");
        let last_header = self.last_header();
        let stakes_before = self.stakes_now();
        for t in &txs {
            self.learn_tx(t);
        }
        let cur = &mut self.cur;
        let result = guarded(|| cur.apply_tx_batch(&txs));
        let post = view_of(&self.db, &self.cur, "post-batch");
        if let Ok(Ok(())) = &result {
            self.block_txs.extend(txs.iter().cloned());
            for t in &txs {
                if t.kind == TxKind::Faucet {
                    self.faucets_done.push(t.clone());
                }
            }
        }
        if result.is_err() {
            // a panic inside apply may have left the state half-updated; the world is abandoned
            self.dead = true;
        }
        self.refresh_from(&post);
        BatchEvent { pre, txs, labels, result, post, last_header, stakes_before }
    }

    /// Seals the current block with `action` and opens the next one.
    pub fn seal_next(&mut self, action: Option<ProposerAction>) -> SealEvent {
        let height = self.height();
        let parent_header = self.tip.as_ref().map(|t| t.header());
        self.learn_id(CoinID::proposer_reward(BlockHeight(height)));
        let cur = self.cur.clone();
        melstf::verif::arm();
        let r = guarded(move || cur.seal(action));
        let snaps = melstf::verif::disarm();
        let phases: Vec<View> = snaps.into_iter().map(|s| view_of_snap(&self.db, s)).collect();
        let block_txs = std::mem::take(&mut self.block_txs);
        match r {
            Ok(sealed) => {
                let header = sealed.header();
                let next = guarded(|| sealed.next_unsealed());
                match next {
                    Ok(n) => {
                        self.cur = n;
                        self.prev_tip = self.tip.take();
                        self.tip = Some(sealed);
                        self.refresh();
                        SealEvent { height, net: self.net, action, block_txs, phases, panic: None, header: Some(header), parent_header }
                    }
                    Err(p) => {
                        self.dead = true;
                        SealEvent { height, net: self.net, action, block_txs, phases, panic: Some(p), header: Some(header), parent_header }
                    }
                }
            }
            Err(p) => {
                self.dead = true;
                SealEvent { height, net: self.net, action, block_txs, phases, panic: Some(p), header: None, parent_header }
            }
        }
    }

    // -----------------------------------------------------------------------------------------
    // building transactions

    pub fn spendable(&self) -> Vec<(CoinID, CoinDataHeight)> {
        let stakes = self.stakes_now();
        self.utxo
            .iter()
            .filter(|(id, c)| self.unlock.contains_key(&c.coin_data.covhash) && !stakes.contains_key(&id.txhash))
            .map(|(a, b)| (*a, b.clone()))
            .collect()
    }

    pub fn random_addr(&mut self) -> Address {
        match self.rng.below(10) {
            0 => destroy_addr(),
            1 | 2 => addr_of(&always_true_cov()),
            3 => {
                let o = self.rng.usize(self.owners.len());
                self.owners[o].addr_legacy
            }
            _ => {
                let o = self.rng.usize(self.owners.len());
                self.owners[o].addr_new
            }
        }
    }

    /// Attaches covenants and signatures for the given inputs; inputs whose unlocking conflicts
    /// (two different keys needing slot 0) are left unsigned.
    pub fn authorise(&self, tx: &mut Transaction, inputs: &[(CoinID, CoinDataHeight)]) {
        let mut covs: Vec<Vec<u8>> = vec![];
        for (_, c) in inputs {
            if let Some(u) = self.unlock.get(&c.coin_data.covhash) {
                let b = match u {
                    Unlock::Anyone(b) => b.clone(),
                    Unlock::New(i) => self.owners[*i].cov_new.clone(),
                    Unlock::Legacy(i) => self.owners[*i].cov_legacy.clone(),
                };
                if !covs.contains(&b) {
                    covs.push(b);
                }
            }
        }
        tx.covenants = covs.into_iter().map(Bytes::from).collect();
        self.sign(tx, inputs);
    }

    pub fn sign(&self, tx: &mut Transaction, inputs: &[(CoinID, CoinDataHeight)]) {
        tx.sigs = vec![];
        let h = tx.hash_nosigs();
        let mut sigs: Vec<Option<Vec<u8>>> = vec![None; inputs.len().max(1)];
        for (idx, (_, c)) in inputs.iter().enumerate() {
            match self.unlock.get(&c.coin_data.covhash) {
                Some(Unlock::New(o)) => {
                    if sigs[idx].is_none() {
                        sigs[idx] = Some(self.owners[*o].key.sk.sign(&h.0 .0));
                    }
                }
                Some(Unlock::Legacy(o)) => {
                    let s = self.owners[*o].key.sk.sign(&h.0 .0);
                    if sigs[0].is_none() || idx == 0 {
                        sigs[0] = Some(s);
                    }
                }
                _ => {}
            }
        }
        // legacy owners win slot 0 only if compatible; re-check New at slot 0
        if let Some((_, c)) = inputs.first() {
            if let Some(Unlock::New(o)) = self.unlock.get(&c.coin_data.covhash) {
                sigs[0] = Some(self.owners[*o].key.sk.sign(&h.0 .0));
            }
        }
        let last = sigs.iter().rposition(|s| s.is_some()).map(|p| p + 1).unwrap_or(0);
        tx.sigs = sigs[..last].iter().map(|s| Bytes::from(s.clone().unwrap_or_default())).collect();
    }

    /// Picks inputs whose unlocking is mutually compatible.
    pub fn pick_inputs(&mut self, want_denoms: &[Denom], max_extra: usize) -> Vec<(CoinID, CoinDataHeight)> {
        let mut pool = self.spendable();
        self.rng.shuffle(&mut pool);
        let mut out: Vec<(CoinID, CoinDataHeight)> = vec![];
        let mut slot0_owner: Option<usize> = None;
        let mut ok = |w: &World, out: &Vec<(CoinID, CoinDataHeight)>, slot0: &mut Option<usize>, c: &CoinDataHeight| -> bool {
            match w.unlock.get(&c.coin_data.covhash) {
                Some(Unlock::Legacy(o)) => {
                    if let Some(s) = slot0 {
                        *s == *o
                    } else {
                        *slot0 = Some(*o);
                        true
                    }
                }
                Some(Unlock::New(o)) => {
                    if out.is_empty() {
                        if let Some(s) = slot0 {
                            return *s == *o;
                        }
                        *slot0 = Some(*o);
                    }
                    true
                }
                Some(Unlock::Anyone(_)) => true,
                None => false,
            }
        };
        // the first input decides slot 0; put a New/Anyone coin first where possible
        for d in want_denoms {
            if let Some(pos) = pool.iter().position(|(_, c)| c.coin_data.denom == *d && c.coin_data.value.0 > 0) {
                let (id, c) = pool.remove(pos);
                if out.is_empty() {
                    match self.unlock.get(&c.coin_data.covhash) {
                        Some(Unlock::New(o)) | Some(Unlock::Legacy(o)) => slot0_owner = Some(*o),
                        _ => {}
                    }
                    out.push((id, c));
                } else if ok(self, &out, &mut slot0_owner, &c) {
                    out.push((id, c));
                }
            }
        }
        let extra = if max_extra == 0 { 0 } else { self.rng.usize(max_extra + 1) };
        for _ in 0..extra {
            if let Some((id, c)) = pool.pop() {
                if !out.is_empty() && ok(self, &out, &mut slot0_owner, &c) {
                    out.push((id, c));
                }
            }
        }
        // Legacy at a later index with an Anyone at slot 0 is fine only when slot 0 carries its signature: handled by sign()
        out
    }

    fn amount(&mut self, cap: u128) -> u128 {
        if cap == 0 {
            return 0;
        }
        let v = if self.rng.chance(self.profile.big_values_permille, 1000) {
            match self.rng.below(4) {
                0 => cap,
                1 => 1,
                2 => cap / 2 + 1,
                _ => self.rng.loguniform(120),
            }
        } else {
            self.rng.loguniform(50)
        };
        v.min(cap).max(1)
    }

    /// Completes a transaction: outputs given as "payload"; MEL change/fee and change of other
    /// denominations are appended so that it balances exactly; covenants and signatures attached.
    /// `tip` is added on top of the minimum fee.
    pub fn complete(
        &mut self,
        kind: TxKind,
        inputs: Vec<(CoinID, CoinDataHeight)>,
        mut payload: Vec<CoinData>,
        data: Vec<u8>,
        tip: u128,
    ) -> Option<Transaction> {
        let mult = self.fee_multiplier();
        let mut in_tot: BTreeMap<Denom, u128> = BTreeMap::new();
        for (_, c) in &inputs {
            *in_tot.entry(c.coin_data.denom).or_default() += c.coin_data.value.0;
        }
        let mut out_tot: BTreeMap<Denom, u128> = BTreeMap::new();
        for o in &payload {
            if o.denom != Denom::NewCustom && !(kind == TxKind::DoscMint && o.denom == Denom::Erg) {
                *out_tot.entry(o.denom).or_default() += o.value.0;
            }
        }
        // change for non-MEL denominations
        let change_addr = {
            let o = self.rng.usize(self.owners.len());
            self.owners[o].addr_new
        };
        for (d, iv) in in_tot.iter() {
            if *d == Denom::Mel {
                continue;
            }
            let ov = out_tot.get(d).copied().unwrap_or(0);
            if ov > *iv {
                return None;
            }
            let mut rest = iv - ov;
            while rest > 0 {
                let v = rest.min(MAX_COINVAL);
                payload.push(CoinData { covhash: change_addr, value: CoinValue(v), denom: *d, additional_data: Bytes::new() });
                rest -= v;
            }
        }
        for (d, ov) in out_tot.iter() {
            if *d != Denom::Mel && *ov > in_tot.get(d).copied().unwrap_or(0) {
                return None;
            }
        }
        if !in_tot.contains_key(&Denom::Mel) {
            // every non-faucet transaction names MEL among its outputs (the fee), so it needs a MEL input
            return None;
        }
        let in_mel = in_tot.get(&Denom::Mel).copied().unwrap_or(0);
        let out_mel = out_tot.get(&Denom::Mel).copied().unwrap_or(0);
        if out_mel > in_mel {
            return None;
        }
        let avail = in_mel - out_mel;
        // MEL change output (value fixed below)
        let change_idx = payload.len();
        payload.push(CoinData { covhash: change_addr, value: CoinValue(0), denom: Denom::Mel, additional_data: Bytes::new() });
        if payload.len() > 255 {
            return None;
        }
        let mut tx = Transaction {
            kind,
            inputs: inputs.iter().map(|x| x.0).collect(),
            outputs: payload,
            fee: CoinValue(0),
            covenants: vec![],
            data: data.into(),
            sigs: vec![],
        };
        self.authorise(&mut tx, &inputs);
        let mut fee = 0u128;
        for _ in 0..6 {
            let min = model::big_to_u128_sat(&model::ref_min_fee(&tx, mult));
            let want = min.checked_add(tip)?;
            if want > avail || want > MAX_COINVAL {
                return None;
            }
            let change = avail - want;
            if change > MAX_COINVAL {
                // too much MEL for one change output: pay it out as a larger fee is not allowed; split
                return None;
            }
            tx.fee = CoinValue(want);
            tx.outputs[change_idx].value = CoinValue(change);
            if want == fee {
                break;
            }
            fee = want;
        }
        // final check of the fixpoint
        let min = model::big_to_u128_sat(&model::ref_min_fee(&tx, mult));
        if tx.fee.0 < min {
            return None;
        }
        self.sign(&mut tx, &inputs);
        Some(tx)
    }

    pub fn gen_normal(&mut self) -> Option<Transaction> {
        let mut want = vec![Denom::Mel];
        if self.rng.chance(1, 3) {
            let ds: Vec<Denom> = self.utxo.values().map(|c| c.coin_data.denom).filter(|d| *d != Denom::Mel).collect();
            if !ds.is_empty() {
                want.push(*self.rng.pick(&ds));
            }
        }
        let inputs = self.pick_inputs(&want, 2);
        if inputs.is_empty() {
            return None;
        }
        let mut payload = vec![];
        let n_out = self.rng.usize(4);
        let mut left: BTreeMap<Denom, u128> = BTreeMap::new();
        for (_, c) in &inputs {
            *left.entry(c.coin_data.denom).or_default() += c.coin_data.value.0;
        }
        for _ in 0..n_out {
            let ds: Vec<Denom> = left.keys().copied().collect();
            let d = *self.rng.pick(&ds);
            let cap = (left[&d] / 3).min(MAX_COINVAL);
            if cap == 0 {
                continue;
            }
            let v = self.amount(cap);
            *left.get_mut(&d).unwrap() -= v;
            let covhash = self.random_addr();
            let ad = if self.rng.chance(1, 5) { self.rng.bytes(self.rng.clone().usize(40)) } else { vec![] };
            payload.push(CoinData { covhash, value: CoinValue(v), denom: d, additional_data: ad.into() });
        }
        let tip = if self.rng.chance(1, 3) { self.rng.loguniform(20) } else { 0 };
        let data = if self.rng.chance(1, 6) { self.rng.bytes(self.rng.clone().usize(64)) } else { vec![] };
        self.complete(TxKind::Normal, inputs, payload, data, tip)
    }

    pub fn gen_newcustom(&mut self) -> Option<Transaction> {
        let inputs = self.pick_inputs(&[Denom::Mel], 1);
        if inputs.is_empty() {
            return None;
        }
        let v = self.amount(MAX_COINVAL);
        let covhash = {
            let o = self.rng.usize(self.owners.len());
            self.owners[o].addr_new
        };
        let mut payload = vec![CoinData { covhash, value: CoinValue(v), denom: Denom::NewCustom, additional_data: Bytes::new() }];
        if self.rng.chance(1, 3) {
            // a second new-token output, possibly burnt at issue (destroy address) or sent anywhere
            let c2 = self.random_addr();
            let c2 = if self.rng.chance(1, 2) { destroy_addr() } else { c2 };
            let v2 = self.amount(MAX_COINVAL);
            payload.push(CoinData { covhash: c2, value: CoinValue(v2), denom: Denom::NewCustom, additional_data: Bytes::new() });
        }
        let tx = self.complete(TxKind::Normal, inputs, payload, vec![], 0)?;
        self.customs.push(Denom::Custom(tx.hash_nosigs()));
        Some(tx)
    }

    pub fn gen_faucet(&mut self) -> Option<Transaction> {
        if self.net == NetID::Mainnet {
            return None;
        }
        let n = 1 + self.rng.usize(4);
        let mut outs = vec![];
        for _ in 0..n {
            let mut choices = vec![Denom::Mel, Denom::Mel, Denom::Sym, Denom::Erg, Denom::NewCustom];
            choices.extend(self.customs.iter().copied());
            let denom = *self.rng.pick(&choices);
            let covhash = {
                let o = self.rng.usize(self.owners.len());
                if self.rng.chance(1, 4) {
                    addr_of(&always_true_cov())
                } else {
                    self.owners[o].addr_new
                }
            };
            let value = self.amount(1u128 << 110).max(1_000_000);
            let covhash = if self.rng.chance(1, 10) { destroy_addr() } else { covhash };
            outs.push(CoinData { covhash, value: CoinValue(value), denom, additional_data: Bytes::new() });
        }
        let fee = if self.rng.chance(1, 2) { 0 } else { self.rng.loguniform(40) };
        let mut tx = Transaction {
            kind: TxKind::Faucet,
            inputs: vec![],
            outputs: outs,
            fee: CoinValue(fee),
            covenants: vec![],
            data: self.rng.bytes(8).into(),
            sigs: vec![],
        };
        let mult = self.fee_multiplier();
        let min = model::big_to_u128_sat(&model::ref_min_fee(&tx, mult));
        if min > MAX_COINVAL {
            return None;
        }
        if tx.fee.0 < min {
            tx.fee = CoinValue(min);
            let min2 = model::big_to_u128_sat(&model::ref_min_fee(&tx, mult));
            tx.fee = CoinValue(min2.max(min));
        }
        Some(tx)
    }

    /// All spellings of a pool's name that parse as a pool key.
    pub fn spellings(&mut self, key: PoolKey) -> Vec<(String, Vec<u8>)> {
        let mut v = vec![("canonical".to_string(), key.to_bytes().to_vec())];
        let long = |l: Denom, r: Denom| {
            let mut b = vec![0u8; 32];
            b.extend_from_slice(&stdcode::serialize(&(l, r)).unwrap());
            b
        };
        v.push(("long-same-order".to_string(), long(key.left(), key.right())));
        v.push(("long-reversed".to_string(), long(key.right(), key.left())));
        // a name with the same denomination on both sides (parses, names no pool)
        let x = if key.right() != Denom::Mel { key.right() } else { key.left() };
        if x != Denom::Mel {
            v.push(("long-equal-sides".to_string(), long(x, x)));
        }
        v
    }

    fn pool_data(&mut self, key: PoolKey) -> (String, Vec<u8>) {
        if self.rng.chance(self.profile.odd_spelling_permille, 1000) {
            let s = self.spellings(key);
            let i = 1 + self.rng.usize(s.len() - 1);
            s[i].clone()
        } else {
            ("canonical".to_string(), key.to_bytes().to_vec())
        }
    }

    pub fn known_pools(&self) -> Vec<PoolKey> {
        let mut v = vec![PoolKey::new(Denom::Mel, Denom::Sym), PoolKey::new(Denom::Mel, Denom::Erg)];
        if tip_active(self.net, self.height(), TIP_902) {
            v.push(PoolKey::new(Denom::Erg, Denom::Sym));
        }
        v.extend(self.my_pools.iter().copied());
        if let Some(k) = self.force_pool {
            return vec![k];
        }
        v
    }

    pub fn gen_swap(&mut self) -> Option<(Transaction, String)> {
        let pools = self.known_pools();
        let key = *self.rng.pick(&pools);
        let side = if self.rng.chance(1, 2) { key.left() } else { key.right() };
        let have: u128 = self.spendable().iter().filter(|(_, c)| c.coin_data.denom == side).map(|(_, c)| c.coin_data.value.0).max().unwrap_or(0);
        if have == 0 {
            return None;
        }
        let mut want = vec![Denom::Mel];
        if side != Denom::Mel {
            want.insert(0, side);
        }
        let inputs = self.pick_inputs(&want, 1);
        let avail: u128 = inputs.iter().filter(|(_, c)| c.coin_data.denom == side).map(|(_, c)| c.coin_data.value.0).sum();
        if avail < 2 {
            return None;
        }
        let v = self.amount((avail / 2).min(MAX_COINVAL));
        let covhash = {
            let o = self.rng.usize(self.owners.len());
            self.owners[o].addr_new
        };
        let (sp, data) = self.pool_data(key);
        let kind = if self.rng.chance(self.profile.wrong_kind_permille, 1000) {
            *self.rng.pick(&[TxKind::Normal, TxKind::LiqDeposit, TxKind::LiqWithdraw])
        } else {
            TxKind::Swap
        };
        let payload = vec![CoinData { covhash, value: CoinValue(v), denom: side, additional_data: Bytes::new() }];
        let tx = self.complete(kind, inputs, payload, data, 0)?;
        Some((tx, format!("swap kind={} spelling={} side={}", kind, sp, denom_name(&side))))
    }

    pub fn gen_deposit(&mut self) -> Option<(Transaction, String)> {
        // existing pool or a brand-new MEL/custom pool
        let mut cands = self.known_pools();
        for c in self.customs.clone() {
            let k = PoolKey::new(Denom::Mel, c);
            if !cands.contains(&k) {
                cands.push(k);
            }
        }
        let mut key = *self.rng.pick(&cands);
        if let Some(k) = self.force_pool {
            key = k;
        }
        if self.twin_deposits && self.rng.chance(2, 3) {
            if let Some((k, _, _)) = self.last_deposit {
                key = k;
            }
        }
        let sp = self.spendable();
        let lmax = sp.iter().filter(|(_, c)| c.coin_data.denom == key.left()).map(|(_, c)| c.coin_data.value.0).max().unwrap_or(0);
        let rmax = sp.iter().filter(|(_, c)| c.coin_data.denom == key.right()).map(|(_, c)| c.coin_data.value.0).max().unwrap_or(0);
        if lmax < 2 || rmax < 2 {
            return None;
        }
        let mut want = vec![key.left(), key.right()];
        if !want.contains(&Denom::Mel) {
            want.push(Denom::Mel);
        }
        let inputs = self.pick_inputs(&want, 0);
        let la: u128 = inputs.iter().filter(|(_, c)| c.coin_data.denom == key.left()).map(|(_, c)| c.coin_data.value.0).sum();
        let ra: u128 = inputs.iter().filter(|(_, c)| c.coin_data.denom == key.right()).map(|(_, c)| c.coin_data.value.0).sum();
        if la < 2 || ra < 2 {
            return None;
        }
        let mut lv = self.amount((la / 2).min(MAX_COINVAL));
        let mut rv = self.amount((ra / 2).min(MAX_COINVAL));
        if self.twin_deposits {
            // equal, perfect-square or repeated amounts: the cases in which truncated square roots matter
            match self.rng.below(4) {
                0 => {
                    if let Some((k, l, r)) = self.last_deposit {
                        if k == key && l <= la / 2 && r <= ra / 2 {
                            lv = l;
                            rv = r;
                        }
                    }
                }
                1 => {
                    let root = (lv as f64).sqrt() as u128;
                    lv = (root * root).max(1).min(la / 2);
                    let root = (rv as f64).sqrt() as u128;
                    rv = (root * root).max(1).min(ra / 2);
                }
                2 => {
                    lv = lv.min(rv).max(1);
                    rv = lv.min(ra / 2).max(1);
                }
                _ => {}
            }
            self.last_deposit = Some((key, lv, rv));
        }
        let covhash = {
            let o = self.rng.usize(self.owners.len());
            self.owners[o].addr_new
        };
        let (mut spn, mut data) = self.pool_data(key);
        let kind = if self.rng.chance(self.profile.wrong_kind_permille, 1000) {
            *self.rng.pick(&[TxKind::Normal, TxKind::Swap, TxKind::LiqWithdraw])
        } else {
            TxKind::LiqDeposit
        };
        let mut payload = vec![
            CoinData { covhash, value: CoinValue(lv), denom: key.left(), additional_data: Bytes::new() },
            CoinData { covhash, value: CoinValue(rv), denom: key.right(), additional_data: Bytes::new() },
        ];
        if key.right() != Denom::Mel && rv >= 2 && self.rng.chance(self.profile.odd_spelling_permille, 3000) {
            // both outputs in one denomination under a name whose two sides are that denomination
            let x = key.right();
            let mut b = vec![0u8; 32];
            b.extend_from_slice(&stdcode::serialize(&(x, x)).unwrap());
            data = b;
            spn = "long-equal-sides,both-outputs-that-denomination".to_string();
            payload = vec![
                CoinData { covhash, value: CoinValue(rv - rv / 2), denom: x, additional_data: Bytes::new() },
                CoinData { covhash, value: CoinValue(rv / 2), denom: x, additional_data: Bytes::new() },
            ];
        }
        let tx = self.complete(kind, inputs, payload, data, 0)?;
        if kind == TxKind::LiqDeposit && !self.my_pools.contains(&key) && !self.known_pools().contains(&key) {
            self.my_pools.push(key);
        }
        Some((tx, format!("deposit kind={} spelling={}", kind, spn)))
    }

    pub fn gen_withdraw(&mut self) -> Option<(Transaction, String)> {
        let pools = self.known_pools();
        let sp = self.spendable();
        let mut cands = vec![];
        for k in pools {
            let ld = k.liq_token_denom();
            if sp.iter().any(|(_, c)| c.coin_data.denom == ld && c.coin_data.value.0 > 0) {
                cands.push(k);
            }
        }
        if cands.is_empty() {
            return None;
        }
        let key = *self.rng.pick(&cands);
        let ld = key.liq_token_denom();
        let inputs = self.pick_inputs(&[ld, Denom::Mel], 0);
        let avail: u128 = inputs.iter().filter(|(_, c)| c.coin_data.denom == ld).map(|(_, c)| c.coin_data.value.0).sum();
        if avail == 0 || !inputs.iter().any(|(_, c)| c.coin_data.denom == Denom::Mel) {
            return None;
        }
        let v = if self.rng.chance(1, 3) { avail.min(MAX_COINVAL) } else { self.amount(avail.min(MAX_COINVAL)) };
        let covhash = {
            let o = self.rng.usize(self.owners.len());
            self.owners[o].addr_new
        };
        let (spn, data) = self.pool_data(key);
        let kind = if self.rng.chance(self.profile.wrong_kind_permille, 1000) {
            *self.rng.pick(&[TxKind::Normal, TxKind::Swap, TxKind::LiqDeposit])
        } else {
            TxKind::LiqWithdraw
        };
        // a withdrawal request must have exactly one output: all change must vanish, so the
        // MEL input is spent entirely as fee+burn; we build it by hand
        let mult = self.fee_multiplier();
        let mut tx = Transaction {
            kind,
            inputs: inputs.iter().map(|x| x.0).collect(),
            outputs: vec![CoinData { covhash, value: CoinValue(v), denom: ld, additional_data: Bytes::new() }],
            fee: CoinValue(0),
            covenants: vec![],
            data: data.into(),
            sigs: vec![],
        };
        // liq change must be zero for a single-output tx: withdraw the whole liq input instead
        tx.outputs[0].value = CoinValue(avail.min(MAX_COINVAL));
        if avail > MAX_COINVAL {
            return None;
        }
        let in_mel: u128 = inputs.iter().filter(|(_, c)| c.coin_data.denom == Denom::Mel).map(|(_, c)| c.coin_data.value.0).sum();
        if in_mel > MAX_COINVAL {
            return None;
        }
        tx.fee = CoinValue(in_mel);
        self.authorise(&mut tx, &inputs);
        let min = model::big_to_u128_sat(&model::ref_min_fee(&tx, mult));
        if in_mel < min {
            return None;
        }
        // other denominations among the inputs would be burnt; only liq + MEL were requested
        if inputs.iter().any(|(_, c)| c.coin_data.denom != ld && c.coin_data.denom != Denom::Mel) {
            return None;
        }
        Some((tx, format!("withdraw kind={} spelling={}", kind, spn)))
    }

    pub fn gen_stake(&mut self) -> Option<(Transaction, String)> {
        let inputs = self.pick_inputs(&[Denom::Sym, Denom::Mel], 0);
        let avail: u128 = inputs.iter().filter(|(_, c)| c.coin_data.denom == Denom::Sym).map(|(_, c)| c.coin_data.value.0).sum();
        if avail < 2 || !inputs.iter().any(|(_, c)| c.coin_data.denom == Denom::Mel) {
            return None;
        }
        let mut v = self.amount((avail / 2).min(MAX_COINVAL));
        if self.rng.chance(1, 12) {
            // a stake of nothing: consistent (0 SYM declared, 0 SYM in the first output), no voting power
            v = 0;
        }
        let epoch = self.height() / STAKE_EPOCH;
        let (e_start, e_post_end, label) = match self.rng.below(6) {
            0 => (epoch, epoch + 2, "start=current"),
            1 => (epoch + 2, epoch + 1, "end<start"),
            2 => (epoch + 1, epoch + 1, "end=start"),
            _ => {
                let s = epoch + 1 + self.rng.below(2);
                (s, s + 1 + self.rng.below(3), "valid")
            }
        };
        let o = self.rng.usize(self.owners.len());
        let staked = if self.rng.chance(1, 8) { v + 1 } else { v };
        let doc = StakeDoc { pubkey: self.owners[o].key.pk, e_start, e_post_end, syms_staked: CoinValue(staked) };
        let covhash = self.owners[o].addr_new;
        let payload = vec![CoinData { covhash, value: CoinValue(v), denom: Denom::Sym, additional_data: Bytes::new() }];
        let tx = self.complete(TxKind::Stake, inputs, payload, doc.stdcode(), 0)?;
        Some((tx, format!("stake {} amount_match={}{}", label, staked == v, if v == 0 { " zero-SYM" } else { "" })))
    }

    /// A valid ERG mint: a real MelPoW proof (small difficulty) over a coin created in an earlier
    /// block, asking for at most the reference reward.
    pub fn gen_doscmint(&mut self) -> Option<(Transaction, String)> {
        use melpow::{HashFunction, Proof, SVec};
        struct L;
        impl HashFunction for L {
            fn hash(&self, b: &[u8], k: &[u8]) -> SVec<u8> {
                SVec::from_slice(blake3::keyed_hash(blake3::hash(k).as_bytes(), b).as_bytes())
            }
        }
        struct T9;
        impl HashFunction for T9 {
            fn hash(&self, b: &[u8], k: &[u8]) -> SVec<u8> {
                let mut h = blake3::keyed_hash(blake3::hash(k).as_bytes(), b);
                for _ in 0..99 {
                    h = blake3::hash(h.as_bytes());
                }
                SVec::from_slice(h.as_bytes())
            }
        }
        if self.net == NetID::Mainnet {
            return None;
        }
        let tip = self.tip.clone()?;
        let tip_h = tip.header().height.0;
        let height = self.height();
        let cands: Vec<(CoinID, CoinDataHeight)> = self
            .spendable()
            .into_iter()
            .filter(|(_, c)| c.coin_data.denom == Denom::Mel && c.height.0 < height && c.coin_data.value.0 <= MAX_COINVAL && (c.height.0 == tip_h || tip.history(c.height).is_some()))
            .collect();
        if cands.is_empty() {
            return None;
        }
        let (id, cdh) = self.rng.pick(&cands).clone();
        let hdr = if cdh.height.0 == tip_h { tip.header() } else { tip.history(cdh.height)? };
        let puzzle = tmelcrypt::hash_keyed(hdr.hash(), &stdcode::serialize(&id).unwrap());
        let tip910 = self.rng.chance(1, 3);
        let mut d = 1 + self.rng.below(if tip910 { 4 } else { 7 }) as u32;
        if self.profile.fast_mint_permille > 0 && self.rng.below(1000) < self.profile.fast_mint_permille {
            // the least difficulty whose speed exceeds the recorded one (so the header's dosc_speed moves)
            let prev = tip.header().dosc_speed;
            let age = (height - cdh.height.0) as u128;
            let need = (0..=(if tip910 { 15u32 } else { 21 })).find(|d| ((1u128 << d) * if tip910 { 100 } else { 1 }) / age > prev);
            if let Some(n) = need {
                d = n.max(1);
            }
        }
        let proof = if tip910 { Proof::generate(&puzzle, d as usize, T9) } else { Proof::generate(&puzzle, d as usize, L) };
        let age = height - cdh.height.0;
        let work: u128 = (1u128 << d) * if tip910 { 100 } else { 1 };
        let speed = work / age as u128;
        let prev = tip.header().dosc_speed;
        let real = crate::refmath::reward_real(speed, prev, d, tip910);
        let nominal = crate::model::big_to_u128_sat(&crate::refmath::dosc_to_erg(height, &real)).min(MAX_COINVAL);
        let mut erg = if self.rng.chance(1, 2) { nominal } else { nominal / 2 };
        // over-claims (expected to be refused): one more than the reward, or the reward as it would be if it were measured
        // against the DOSC speed recorded in the block of the seed coin instead of the previous block's
        let mut over = "";
        if self.rng.chance(1, 6) {
            let stale = crate::model::big_to_u128_sat(&crate::refmath::dosc_to_erg(height, &crate::refmath::reward_real(speed, hdr.dosc_speed.max(1), d, tip910))).min(MAX_COINVAL);
            if stale > nominal && self.rng.chance(2, 3) {
                erg = stale;
                over = "+hostile:erg-claimed-against-the-seed-block's-speed";
            } else if nominal < MAX_COINVAL {
                erg = nominal + 1;
                over = "+hostile:erg=reward+1";
            }
        }
        let covhash = {
            let o = self.rng.usize(self.owners.len());
            self.owners[o].addr_new
        };
        let mut payload = vec![];
        if erg > 0 {
            payload.push(CoinData { covhash, value: CoinValue(erg), denom: Denom::Erg, additional_data: Bytes::new() });
        }
        let data = stdcode::serialize(&(d, proof.to_bytes())).unwrap();
        // the minted coin must be input 0
        let tx = self.complete(TxKind::DoscMint, vec![(id, cdh)], payload, data, 0)?;
        Some((tx, format!("doscmint d={} {} speed={}{}", d, if tip910 { "tip910" } else { "legacy" }, speed, over)))
    }

    /// Degenerate but well-formed requests an adversary can submit: zero-valued pool requests,
    /// proofs and stake documents that do not decode or decode to nothing, liquidity tokens minted
    /// by a test-network faucet and redeemed.
    pub fn gen_degenerate(&mut self) -> Option<(Transaction, String)> {
        let covhash = {
            let o = self.rng.usize(self.owners.len());
            self.owners[o].addr_new
        };
        match self.rng.below(11) {
            0 => {
                // swap request whose side total is zero
                let pools = self.known_pools();
                let key = *self.rng.pick(&pools);
                let side = if self.rng.chance(1, 2) { key.left() } else { key.right() };
                let mut want = vec![Denom::Mel];
                if side != Denom::Mel {
                    want.insert(0, side);
                }
                let inputs = self.pick_inputs(&want, 0);
                if !inputs.iter().any(|(_, c)| c.coin_data.denom == side) {
                    return None;
                }
                let payload = vec![CoinData { covhash, value: CoinValue(0), denom: side, additional_data: Bytes::new() }];
                let tx = self.complete(TxKind::Swap, inputs, payload, key.to_bytes().to_vec(), 0)?;
                Some((tx, "degenerate:zero-valued-swap".into()))
            }
            1 => {
                // deposit with one (or both) sides zero
                let mut cands = self.known_pools();
                for c in self.customs.clone() {
                    cands.push(PoolKey::new(Denom::Mel, c));
                }
                let key = *self.rng.pick(&cands);
                let mut want = vec![key.left(), key.right()];
                if !want.contains(&Denom::Mel) {
                    want.push(Denom::Mel);
                }
                let inputs = self.pick_inputs(&want, 0);
                let la: u128 = inputs.iter().filter(|(_, c)| c.coin_data.denom == key.left()).map(|(_, c)| c.coin_data.value.0).sum();
                let ra: u128 = inputs.iter().filter(|(_, c)| c.coin_data.denom == key.right()).map(|(_, c)| c.coin_data.value.0).sum();
                if la == 0 || ra == 0 {
                    return None;
                }
                let (lv, rv, lab) = match self.rng.below(3) {
                    0 => (0, self.amount((ra / 2).max(1)), "left-zero"),
                    1 => (self.amount((la / 2).max(1)), 0, "right-zero"),
                    _ => (0, 0, "both-zero"),
                };
                let payload = vec![
                    CoinData { covhash, value: CoinValue(lv), denom: key.left(), additional_data: Bytes::new() },
                    CoinData { covhash, value: CoinValue(rv), denom: key.right(), additional_data: Bytes::new() },
                ];
                let tx = self.complete(TxKind::LiqDeposit, inputs, payload, key.to_bytes().to_vec(), 0)?;
                Some((tx, format!("degenerate:deposit-{}", lab)))
            }
            2 | 3 => {
                // ERG mint with a proof that is empty, truncated or garbage
                let inputs = self.pick_inputs(&[Denom::Mel], 0);
                if inputs.is_empty() {
                    return None;
                }
                let (proof, lab): (Vec<u8>, &str) = match self.rng.below(5) {
                    0 => (vec![], "empty-proof"),
                    1 => (self.rng.bytes(40), "one-garbage-node"),
                    2 => (self.rng.bytes(40 * 7), "seven-garbage-nodes"),
                    3 => (self.rng.bytes(41), "odd-length"),
                    _ => {
                        // a node map that contains the root node only
                        let mut v = vec![0u8; 8];
                        v.extend(self.rng.bytes(32));
                        (v, "root-node-only")
                    }
                };
                let difficulty: u32 = *self.rng.pick(&[0u32, 1, 5, 20, 64, 65, 100, 101, 127, 128, 200, u32::MAX]);
                let data = if self.rng.chance(1, 6) { self.rng.bytes(self.rng.clone().usize(20)) } else { stdcode::serialize(&(difficulty, proof)).unwrap() };
                let erg = self.amount(1u128 << 60);
                let payload = vec![CoinData { covhash, value: CoinValue(erg), denom: Denom::Erg, additional_data: Bytes::new() }];
                let tx = self.complete(TxKind::DoscMint, inputs, payload, data, 0)?;
                Some((tx, format!("degenerate:doscmint-{}-difficulty-{}", lab, if difficulty > 100 { ">100" } else if difficulty > 64 { "65..100" } else { "<=64" })))
            }
            4 => {
                // stake with undecodable / truncated document
                let inputs = self.pick_inputs(&[Denom::Sym, Denom::Mel], 0);
                let avail: u128 = inputs.iter().filter(|(_, c)| c.coin_data.denom == Denom::Sym).map(|(_, c)| c.coin_data.value.0).sum();
                if avail == 0 {
                    return None;
                }
                let data = match self.rng.below(3) {
                    0 => vec![],
                    1 => self.rng.bytes(self.rng.clone().usize(60)),
                    _ => {
                        let d = StakeDoc { pubkey: self.owners[0].key.pk, e_start: u64::MAX, e_post_end: u64::MAX, syms_staked: CoinValue(u128::MAX) };
                        d.stdcode()
                    }
                };
                let mut v = self.amount(avail.min(MAX_COINVAL));
                let mut data = data;
                if self.rng.chance(1, 3) {
                    // a consistent document with extreme epochs: it registers, and must not break later blocks
                    let epoch = self.height() / STAKE_EPOCH;
                    v = v.min(1 << 60);
                    let (s, e) = *self.rng.pick(&[(epoch + 1, u64::MAX), (u64::MAX - 1, u64::MAX), (epoch + 1, epoch + 2)]);
                    data = StakeDoc { pubkey: self.owners[0].key.pk, e_start: s, e_post_end: e, syms_staked: CoinValue(v) }.stdcode();
                }
                let outs = if self.rng.chance(1, 4) { vec![] } else { vec![CoinData { covhash, value: CoinValue(v), denom: Denom::Sym, additional_data: Bytes::new() }] };
                let tx = self.complete(TxKind::Stake, inputs, outs, data, 0)?;
                Some((tx, "degenerate:stake-document".into()))
            }
            5 => {
                // test-network faucet minting liquidity tokens of an existing pool
                if self.net == NetID::Mainnet || !self.allow_faucet_liq {
                    return None;
                }
                let pools = self.known_pools();
                let key = *self.rng.pick(&pools);
                let v = self.amount(1u128 << 100);
                let tx = Transaction {
                    kind: TxKind::Faucet,
                    inputs: vec![],
                    outputs: vec![
                        CoinData { covhash, value: CoinValue(v), denom: key.liq_token_denom(), additional_data: Bytes::new() },
                        CoinData { covhash, value: CoinValue(0), denom: key.liq_token_denom(), additional_data: Bytes::new() },
                        CoinData { covhash, value: CoinValue(1 << 60), denom: Denom::Mel, additional_data: Bytes::new() },
                    ],
                    fee: CoinValue(MAX_COINVAL.min(1 << 70)),
                    covenants: vec![],
                    data: self.rng.bytes(8).into(),
                    sigs: vec![],
                };
                Some((tx, "degenerate:faucet-mints-liquidity-token".into()))
            }
            6 => {
                // zero-valued withdrawal (needs a zero-valued liquidity coin)
                let zero = self.spendable().into_iter().find(|(_, c)| c.coin_data.value.0 == 0 && is_custom(&c.coin_data.denom));
                let (zid, zc) = zero?;
                let key = self.known_pools().into_iter().find(|k| k.liq_token_denom() == zc.coin_data.denom)?;
                let mel = self.spendable().into_iter().find(|(_, c)| c.coin_data.denom == Denom::Mel && c.coin_data.value.0 <= MAX_COINVAL)?;
                let inputs = vec![mel.clone(), (zid, zc.clone())];
                let mut tx = Transaction {
                    kind: TxKind::LiqWithdraw,
                    inputs: inputs.iter().map(|x| x.0).collect(),
                    outputs: vec![CoinData { covhash, value: CoinValue(0), denom: zc.coin_data.denom, additional_data: Bytes::new() }],
                    fee: mel.1.coin_data.value,
                    covenants: vec![],
                    data: key.to_bytes(),
                    sigs: vec![],
                };
                self.authorise(&mut tx, &inputs);
                Some((tx, "degenerate:zero-valued-withdrawal".into()))
            }
            7 => {
                // split a liquidity coin into (0, rest) so that zero-valued liquidity coins exist
                let liq = self.spendable().into_iter().find(|(_, c)| is_custom(&c.coin_data.denom) && self.known_pools().iter().any(|k| k.liq_token_denom() == c.coin_data.denom))?;
                let mel = self.spendable().into_iter().find(|(_, c)| c.coin_data.denom == Denom::Mel)?;
                let payload = vec![CoinData { covhash, value: CoinValue(0), denom: liq.1.coin_data.denom, additional_data: Bytes::new() }];
                let tx = self.complete(TxKind::Normal, vec![mel, liq], payload, vec![], 0)?;
                Some((tx, "degenerate:make-zero-liquidity-coin".into()))
            }
            9 => {
                // a LiqWithdraw-kind transaction with TWO outputs (liquidity tokens to two different owners):
                // not a withdrawal request, both outputs must stay as declared
                let pools = self.known_pools();
                let sp = self.spendable();
                let key = pools.into_iter().find(|k| sp.iter().any(|(_, c)| c.coin_data.denom == k.liq_token_denom() && c.coin_data.value.0 >= 2))?;
                let ld = key.liq_token_denom();
                let inputs = self.pick_inputs(&[ld, Denom::Mel], 0);
                let avail: u128 = inputs.iter().filter(|(_, c)| c.coin_data.denom == ld).map(|(_, c)| c.coin_data.value.0).sum();
                if avail < 2 || avail > MAX_COINVAL || !inputs.iter().any(|(_, c)| c.coin_data.denom == Denom::Mel) {
                    return None;
                }
                let a = self.amount(avail / 2);
                let other = {
                    let o = self.rng.usize(self.owners.len());
                    self.owners[o].addr_legacy
                };
                let payload = vec![
                    CoinData { covhash, value: CoinValue(a), denom: ld, additional_data: Bytes::new() },
                    CoinData { covhash: other, value: CoinValue(avail - a), denom: ld, additional_data: Bytes::new() },
                ];
                let tx = self.complete(TxKind::LiqWithdraw, inputs, payload, key.to_bytes().to_vec(), 0)?;
                Some((tx, "degenerate:withdraw-kind-with-several-outputs".into()))
            }
            8 => {
                // a pool named with the "new custom token" pseudo-denomination: data = "" parses as NEWCUSTOM/MEL
                let inputs = self.pick_inputs(&[Denom::Mel], 0);
                let avail: u128 = inputs.iter().filter(|(_, c)| c.coin_data.denom == Denom::Mel).map(|(_, c)| c.coin_data.value.0).sum();
                if avail < 4 {
                    return None;
                }
                let v = self.amount(1 << 40);
                let m = self.amount((avail / 2).min(MAX_COINVAL));
                let kind = *self.rng.pick(&[TxKind::LiqDeposit, TxKind::LiqDeposit, TxKind::Swap]);
                let payload = vec![
                    CoinData { covhash, value: CoinValue(v), denom: Denom::NewCustom, additional_data: Bytes::new() },
                    CoinData { covhash, value: CoinValue(m), denom: Denom::Mel, additional_data: Bytes::new() },
                ];
                let tx = self.complete(kind, inputs, payload, vec![], 0)?;
                self.register_pool_bytes(b"");
                Some((tx, format!("degenerate:pool-request-naming-the-newcustom-pseudo-denomination kind={}", kind)))
            }
            _ => {
                // swap whose input side is the maximum coin value
                let pools = self.known_pools();
                let key = *self.rng.pick(&pools);
                let side = key.left();
                let mut want = vec![Denom::Mel];
                if side != Denom::Mel {
                    want.insert(0, side);
                }
                let inputs = self.pick_inputs(&want, 0);
                let avail: u128 = inputs.iter().filter(|(_, c)| c.coin_data.denom == side).map(|(_, c)| c.coin_data.value.0).sum();
                if avail == 0 {
                    return None;
                }
                let v = avail.min(MAX_COINVAL) - if side == Denom::Mel { avail.min(MAX_COINVAL) / 2 } else { 0 };
                let payload = vec![CoinData { covhash, value: CoinValue(v), denom: side, additional_data: Bytes::new() }];
                let tx = self.complete(TxKind::Swap, inputs, payload, key.to_bytes().to_vec(), 0)?;
                Some((tx, "degenerate:huge-swap".into()))
            }
        }
    }

    /// A payment fanning out into 240-253 equal coins at one address (the first owner's), so that the number of
    /// coins under one covenant hash passes 250/251/252 and, through later spends, comes back down.
    pub fn gen_crowd(&mut self) -> Option<(Transaction, String)> {
        let inputs = self.pick_inputs(&[Denom::Mel], 0);
        let avail: u128 = inputs.iter().filter(|(_, c)| c.coin_data.denom == Denom::Mel).map(|(_, c)| c.coin_data.value.0).sum();
        let k = 240 + self.rng.usize(14);
        if avail < 4 * k as u128 {
            return None;
        }
        let each = (avail / 2 / k as u128).min(MAX_COINVAL).max(1);
        let covhash = self.owners[0].addr_new;
        let payload: Vec<CoinData> = (0..k).map(|_| CoinData { covhash, value: CoinValue(each), denom: Denom::Mel, additional_data: Bytes::new() }).collect();
        let tx = self.complete(TxKind::Normal, inputs, payload, vec![], 0)?;
        if tx.outputs.len() > 255 {
            return None;
        }
        Some((tx, format!("crowd: {} coins to one address", k)))
    }

    /// One generated transaction with a label saying what it is.
    pub fn gen_any(&mut self) -> Option<(Transaction, String)> {
        let p = self.profile.clone();
        if p.crowd_permille > 0 && self.rng.chance(p.crowd_permille, 1000) {
            if let Some(x) = self.gen_crowd() {
                return Some(x);
            }
        }
        if p.degenerate_permille > 0 && self.rng.chance(p.degenerate_permille, 1000) {
            if let Some(x) = self.gen_degenerate() {
                return Some(x);
            }
        }
        let total = p.normal + p.newcustom + p.faucet + p.swap + p.deposit + p.withdraw + p.stake + p.doscmint;
        let mut x = self.rng.below(total.max(1));
        let mut pick = |w: u64| {
            if x < w {
                true
            } else {
                x -= w;
                false
            }
        };
        if pick(p.normal) {
            self.gen_normal().map(|t| (t, "normal".to_string()))
        } else if pick(p.newcustom) {
            self.gen_newcustom().map(|t| (t, "newcustom".to_string()))
        } else if pick(p.faucet) {
            self.gen_faucet().map(|t| (t, "faucet".to_string()))
        } else if pick(p.swap) {
            self.gen_swap()
        } else if pick(p.deposit) {
            self.gen_deposit()
        } else if pick(p.withdraw) {
            self.gen_withdraw()
        } else if pick(p.doscmint) {
            self.gen_doscmint()
        } else {
            self.gen_stake()
        }
    }

    /// Applies a mutation that an adversary might try. Returns the label of the mutation.
    pub fn mutate(&mut self, tx: &mut Transaction) -> String {
        let k = self.rng.below(17);
        self.mutate_kind(tx, k)
    }

    /// The hostile mutator number `k` (0..=16) applied to `tx`.
    pub fn mutate_kind(&mut self, tx: &mut Transaction, k: u64) -> String {
        let inputs: Vec<(CoinID, CoinDataHeight)> =
            tx.inputs.iter().filter_map(|i| self.utxo.get(i).map(|c| (*i, c.clone()))).collect();
        let resign = |w: &World, tx: &mut Transaction| {
            if inputs.len() == tx.inputs.len() {
                w.sign(tx, &inputs);
            }
        };
        match k {
            16 => {
                // a new token next to an output that claims one unit more than the inputs hold: the new-token output is
                // exempt from the balance rule, every other output is not - in whatever order the rule visits them
                if let Some(o) = tx.outputs.iter_mut().find(|o| o.denom != Denom::NewCustom && o.value.0 < MAX_COINVAL) {
                    o.value = CoinValue(o.value.0 + 1);
                }
                let dest = self.random_addr();
                let v = 1 + self.rng.below(1000) as u128;
                tx.outputs.push(CoinData { covhash: dest, value: CoinValue(v), denom: Denom::NewCustom, additional_data: Bytes::new() });
                resign(self, tx);
                "unbalanced-next-to-a-new-token".into()
            }
            0 => {
                if let Some(o) = tx.outputs.first_mut() {
                    o.value = CoinValue(o.value.0.saturating_add(1));
                }
                resign(self, tx);
                "output+1".into()
            }
            1 => {
                tx.fee = CoinValue(tx.fee.0.saturating_sub(1));
                resign(self, tx);
                "fee-1".into()
            }
            2 => {
                if let Some(i) = tx.inputs.first().copied() {
                    tx.inputs.push(i);
                }
                "duplicate-input".into()
            }
            3 => {
                tx.inputs.push(CoinID { txhash: TxHash(HashVal(self.rng.arr32())), index: 0 });
                "missing-input".into()
            }
            4 => {
                tx.covenants.clear();
                "no-covenants".into()
            }
            5 => {
                for s in tx.sigs.iter_mut() {
                    let mut v = s.to_vec();
                    if !v.is_empty() {
                        let p = self.rng.usize(v.len());
                        v[p] ^= 1 << self.rng.below(8);
                    }
                    *s = v.into();
                }
                "sig-bitflip".into()
            }
            6 => {
                if let Some(o) = tx.outputs.last_mut() {
                    o.denom = *self.rng.pick(&[Denom::Sym, Denom::Erg, Denom::Mel]);
                }
                resign(self, tx);
                "denom-switch".into()
            }
            7 => {
                if let Some(o) = tx.outputs.first_mut() {
                    o.value = CoinValue(*self.rng.pick(&[0u128, 1, MAX_COINVAL, MAX_COINVAL + 1, u128::MAX]));
                }
                resign(self, tx);
                "extreme-value".into()
            }
            8 => {
                tx.fee = CoinValue(*self.rng.pick(&[0u128, MAX_COINVAL, MAX_COINVAL + 1, u128::MAX]));
                resign(self, tx);
                "extreme-fee".into()
            }
            9 => {
                // tamper after signing
                let d = self.rng.bytes(5);
                tx.data = d.into();
                "data-tampered-after-signing".into()
            }
            10 => {
                tx.sigs.clear();
                "no-sigs".into()
            }
            11 => {
                tx.kind = *self.rng.pick(&[TxKind::Stake, TxKind::Swap, TxKind::LiqDeposit, TxKind::LiqWithdraw, TxKind::DoscMint, TxKind::Faucet]);
                resign(self, tx);
                format!("kind-switch-{}", tx.kind)
            }
            12 => {
                while tx.outputs.len() < 256 {
                    tx.outputs.push(CoinData { covhash: destroy_addr(), value: CoinValue(0), denom: Denom::Mel, additional_data: Bytes::new() });
                }
                resign(self, tx);
                "256-outputs".into()
            }
            13 => {
                tx.inputs.reverse();
                "inputs-reversed".into()
            }
            14 => {
                tx.covenants.push(self.rng.bytes(self.rng.clone().usize(30)).into());
                resign(self, tx);
                "garbage-covenant-added".into()
            }
            _ => {
                // spend a coin locked by someone else's key without its signature
                let others: Vec<(CoinID, CoinDataHeight)> = self.utxo.iter().filter(|(id, _)| !tx.inputs.contains(id)).map(|(a, b)| (*a, b.clone())).collect();
                if !others.is_empty() {
                    let (id, _) = self.rng.pick(&others).clone();
                    tx.inputs.push(id);
                }
                "foreign-input-unsigned".into()
            }
        }
    }

    /// A batch of transactions built against the current state. Dependent transactions are built by
    /// letting the wallet see the outputs of earlier members (without touching the real state).
    pub fn gen_batch(&mut self) -> (Vec<Transaction>, Vec<String>) {
        let n = 1 + self.rng.usize(self.profile.max_batch);
        let dependent = self.rng.chance(self.profile.dependent_permille, 1000);
        let saved_utxo = self.utxo.clone();
        let mut txs: Vec<Transaction> = vec![];
        let mut labels = vec![];
        let height = self.height();
        let mut used: HashSet<CoinID> = HashSet::new();
        let mut created: HashMap<CoinID, CoinDataHeight> = HashMap::new();
        let hostile_at = if self.rng.chance(self.profile.hostile, 100) { Some(self.rng.usize(n)) } else { None };
        for k in 0..n {
            let hostile = hostile_at == Some(k);
            if let Some((mut tx, mut label)) = self.gen_any() {
                if tx.inputs.iter().any(|i| used.contains(i)) {
                    continue;
                }
                if hostile {
                    let m = self.mutate(&mut tx);
                    label = format!("{}+hostile:{}", label, m);
                }
                for i in &tx.inputs {
                    used.insert(*i);
                    self.utxo.remove(i);
                }
                if dependent && !hostile && tx.kind != TxKind::Stake {
                    for (id, c) in model::outputs_of(&tx, height) {
                        self.learn_id(id);
                        created.insert(id, c.clone());
                        self.utxo.insert(id, c);
                    }
                }
                txs.push(tx);
                labels.push(label);
            }
        }
        // adversarial batch shapes around coins created inside the batch: a second spender of the same
        // batch-created coin, or one transaction listing such a coin twice (and claiming its value twice)
        if dependent && hostile_at.is_none() && self.rng.chance(1, 6) {
            let hashes: HashMap<TxHash, usize> = txs.iter().enumerate().map(|(i, t)| (t.hash_nosigs(), i)).collect();
            let children: Vec<usize> = (0..txs.len()).filter(|i| txs[*i].kind == TxKind::Normal && txs[*i].inputs.iter().any(|inp| hashes.contains_key(&inp.txhash))).collect();
            if !children.is_empty() {
                let ci = *self.rng.pick(&children);
                let child = txs[ci].clone();
                let inputs: Vec<(CoinID, CoinDataHeight)> = child.inputs.iter().filter_map(|i| created.get(i).or_else(|| saved_utxo.get(i)).map(|c| (*i, c.clone()))).collect();
                if inputs.len() == child.inputs.len() {
                    if self.rng.chance(1, 2) {
                        let mut twin = child.clone();
                        twin.data = Bytes::from(self.rng.bytes(4));
                        self.sign(&mut twin, &inputs);
                        txs.push(twin);
                        labels.push("normal+hostile:second-spender-of-batch-created-coin".into());
                    } else if let Some(pos) = child.inputs.iter().position(|inp| hashes.contains_key(&inp.txhash)) {
                        let mut twin = child.clone();
                        let dup = twin.inputs[pos];
                        twin.inputs.push(dup);
                        let (v, d) = (inputs[pos].1.coin_data.value, inputs[pos].1.coin_data.denom);
                        let covhash = inputs[pos].1.coin_data.covhash;
                        if v.0 <= MAX_COINVAL {
                            twin.outputs.push(CoinData { covhash, value: v, denom: d, additional_data: Bytes::new() });
                        }
                        let mut ins2 = inputs.clone();
                        ins2.push(inputs[pos].clone());
                        self.sign(&mut twin, &ins2);
                        txs[ci] = twin;
                        labels[ci] = format!("{}+hostile:batch-created-coin-listed-twice", labels[ci]);
                    }
                }
            }
        }
        // a member that spends an output of a stake transaction of the same batch (a change output, index >= 1, or the
        // staked coin itself): refused as a batch on the pinned code; the point is that every way of applying it agrees
        if hostile_at.is_none() && self.rng.chance(1, 3) {
            if let Some(si) = (0..txs.len()).find(|i| txs[*i].kind == TxKind::Stake) {
                let stx = txs[si].clone();
                let k = if stx.outputs.len() > 1 && self.rng.chance(3, 4) { 1 + self.rng.usize(stx.outputs.len() - 1) } else { 0 };
                let coin = (stx.output_coinid(k as u8), CoinDataHeight { coin_data: stx.outputs[k].clone(), height: BlockHeight(height) });
                let mut ins = vec![];
                if coin.1.coin_data.denom != Denom::Mel || coin.1.coin_data.value.0 == 0 {
                    if let Some(mel) = saved_utxo.iter().find(|(i, c)| c.coin_data.denom == Denom::Mel && !used.contains(*i) && c.coin_data.value.0 <= MAX_COINVAL && c.coin_data.value.0 > 0 && self.unlock.contains_key(&c.coin_data.covhash)) {
                        ins.push((*mel.0, mel.1.clone()));
                    }
                }
                let have_mel = !ins.is_empty() || coin.1.coin_data.denom == Denom::Mel;
                ins.push(coin);
                if have_mel && self.unlock.contains_key(&stx.outputs[k].covhash) {
                    self.learn_tx(&stx);
                    if let Some(sp) = self.complete(TxKind::Normal, ins, vec![], vec![], 0) {
                        txs.push(sp);
                        labels.push(format!("normal+hostile:spender-of-member-stake-output-{}", if k == 0 { "0" } else { "1+" }));
                    }
                }
            }
        }
        self.utxo = saved_utxo;
        match self.rng.below(4) {
            0 => {
                let mut idx: Vec<usize> = (0..txs.len()).collect();
                self.rng.shuffle(&mut idx);
                txs = idx.iter().map(|i| txs[*i].clone()).collect();
                labels = idx.iter().map(|i| labels[*i].clone()).collect();
            }
            1 => {
                txs.reverse();
                labels.reverse();
            }
            _ => {}
        }
        (txs, labels)
    }

    pub fn gen_action(&mut self) -> Option<ProposerAction> {
        if self.rng.chance(2, 5) {
            return None;
        }
        let delta = match self.rng.below(8) {
            0 => -128i8,
            1 => -64,
            2 => -1,
            3 => 0,
            4 => 1,
            5 => 64,
            6 => 127,
            _ => self.rng.next() as i8,
        };
        let dest = if self.rng.chance(1, 8) {
            destroy_addr()
        } else {
            let o = self.rng.usize(self.owners.len());
            self.owners[o].addr_new
        };
        Some(ProposerAction { fee_multiplier_delta: delta, reward_dest: dest })
    }
}

/// Monitors plug into a history through this trait.
pub trait Monitor {
    fn on_batch(&mut self, _w: &World, _ev: &BatchEvent) {}
    fn on_seal(&mut self, _w: &World, _ev: &SealEvent) {}
}

/// Runs one history of `blocks` blocks with 0-3 batches each.
/// A user-created pool under the name of a built-in pool that the rules have not enabled yet (ERG/SYM on
/// testnet below height 500 / mainnet below TIP-902): the world must stand a few blocks below the activation.
/// Block 1 deposits into it; the whole liquidity is withdrawn again in block `withdraw_in` (if any); swaps
/// against it in between; the history then continues normally across the activation for `tail` blocks.
pub fn squat_history(w: &mut World, withdraw_in: Option<usize>, scripted: usize, tail: usize, mons: &mut [&mut dyn Monitor]) {
    let key = PoolKey::new(Denom::Erg, Denom::Sym);
    let saved = w.profile.clone();
    w.profile.odd_spelling_permille = 0;
    w.profile.wrong_kind_permille = 0;
    for b in 0..scripted {
        if w.dead {
            return;
        }
        w.force_pool = Some(key);
        let req = if b == 0 {
            w.gen_deposit()
        } else if Some(b) == withdraw_in {
            w.gen_withdraw()
        } else if w.rng.chance(1, 2) {
            w.gen_swap()
        } else {
            None
        };
        w.force_pool = None;
        if let Some((tx, label)) = req {
            let ev = w.apply_batch(vec![tx], vec![format!("squat:{}", label)]);
            for m in mons.iter_mut() {
                m.on_batch(w, &ev);
            }
        }
        if w.dead {
            return;
        }
        let ev = w.seal_next(None);
        for m in mons.iter_mut() {
            m.on_seal(w, &ev);
        }
    }
    w.profile = saved;
    run_history(w, tail, mons);
}

pub fn run_history(w: &mut World, blocks: usize, mons: &mut [&mut dyn Monitor]) {
    for _ in 0..blocks {
        if w.dead {
            return;
        }
        if w.profile.big_block_permille > 0 && w.rng.chance(w.profile.big_block_permille, 1000) {
            // a big block: batches of up to 48 members until the block holds a number of transactions around the
            // multiples of 64 (sizes at which chunked or sliced processing would change behaviour)
            let target = *w.rng.pick(&[65usize, 66, 70, 100, 127, 129, 130, 191, 200]);
            let saved = w.profile.clone();
            w.profile.max_batch = 48;
            w.profile.hostile = 0;
            w.profile.faucet = saved.faucet.max(40);
            w.profile.crowd_permille = 0;
            let mut tries = 0;
            while w.block_txs.len() < target && tries < 24 && !w.dead {
                tries += 1;
                w.profile.max_batch = (target - w.block_txs.len()).clamp(1, 48);
                let (txs, labels) = w.gen_batch();
                if txs.is_empty() {
                    continue;
                }
                let ev = w.apply_batch(txs, labels);
                for m in mons.iter_mut() {
                    m.on_batch(w, &ev);
                }
            }
            w.profile = saved;
            if w.dead {
                return;
            }
        }
        let nb = w.rng.usize(4);
        for _ in 0..nb {
            let (txs, labels) = w.gen_batch();
            if txs.is_empty() {
                continue;
            }
            let ev = w.apply_batch(txs, labels);
            for m in mons.iter_mut() {
                m.on_batch(w, &ev);
            }
            if w.dead {
                return;
            }
        }
        let action = w.gen_action();
        let ev = w.seal_next(action);
        for m in mons.iter_mut() {
            m.on_seal(w, &ev);
        }
    }
}
