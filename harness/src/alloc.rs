//! Counting allocator: per-thread live bytes, peak and cumulative allocation, used by C11 to
//! relate the memory a covenant makes validators spend to its weight. Counting is switched on
//! per thread around the measured call only.
use std::alloc::{GlobalAlloc, Layout, System};
use std::cell::Cell;

pub struct Counting;

thread_local! {
    static ON: Cell<bool> = const { Cell::new(false) };
    static LIVE: Cell<i64> = const { Cell::new(0) };
    static PEAK: Cell<i64> = const { Cell::new(0) };
    static TOTAL: Cell<u64> = const { Cell::new(0) };
}

unsafe impl GlobalAlloc for Counting {
    unsafe fn alloc(&self, l: Layout) -> *mut u8 {
        let p = System.alloc(l);
        if !p.is_null() {
            note_alloc(l.size());
        }
        p
    }
    unsafe fn dealloc(&self, p: *mut u8, l: Layout) {
        System.dealloc(p, l);
        note_free(l.size());
    }
    unsafe fn realloc(&self, p: *mut u8, l: Layout, new: usize) -> *mut u8 {
        let q = System.realloc(p, l, new);
        if !q.is_null() {
            note_free(l.size());
            note_alloc(new);
        }
        q
    }
}

fn note_alloc(n: usize) {
    let _ = ON.try_with(|on| {
        if on.get() {
            let _ = LIVE.try_with(|live| {
                let v = live.get() + n as i64;
                live.set(v);
                let _ = PEAK.try_with(|p| {
                    if v > p.get() {
                        p.set(v)
                    }
                });
            });
            let _ = TOTAL.try_with(|t| t.set(t.get() + n as u64));
        }
    });
}
fn note_free(n: usize) {
    let _ = ON.try_with(|on| {
        if on.get() {
            let _ = LIVE.try_with(|live| live.set(live.get() - n as i64));
        }
    });
}

/// Starts measuring on this thread (live bytes counted relative to now).
pub fn start() {
    LIVE.with(|l| l.set(0));
    PEAK.with(|l| l.set(0));
    TOTAL.with(|l| l.set(0));
    ON.with(|o| o.set(true));
}
/// Stops measuring; returns (peak live bytes above the start, cumulative bytes allocated).
pub fn stop() -> (u64, u64) {
    ON.with(|o| o.set(false));
    (PEAK.with(|p| p.get()).max(0) as u64, TOTAL.with(|t| t.get()))
}

/// Switches counting off on this thread without reading the counters (used by the panic hook so
/// that its own backtrace work is not attributed to the code under test).
pub fn suspend() {
    let _ = ON.try_with(|o| o.set(false));
}
