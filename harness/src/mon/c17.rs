//! C17 - the fee multiplier moves only by the bounded, specified step per block.
use melstructs::{NetID, ProposerAction};
use num::bigint::BigInt;
use num::{Signed, ToPrimitive, Zero};
use serde_json::json;

use crate::gen::destroy_addr;
use crate::guard::{guarded, msg_class, site};
use crate::report::Report;
use crate::rng::fnv;
use crate::world::*;
use crate::Params;

/// expected new multiplier, or None when the specified step would take it below zero
pub(crate) fn expected(m: u128, delta: i8, tip901: bool) -> Option<BigInt> {
    let mut step = BigInt::from(m >> 7);
    if tip901 && step < BigInt::from(2) {
        step = BigInt::from(2);
    }
    let prod = step * BigInt::from(delta as i64);
    // trunc toward zero
    let q = if prod.is_negative() { -((-prod) / BigInt::from(128)) } else { prod / BigInt::from(128) };
    let n = BigInt::from(m) + q;
    if n.is_negative() {
        None
    } else {
        Some(n)
    }
}

fn mclass(m: u128) -> &'static str {
    if m < 2 {
        "m<2"
    } else if m < 256 {
        "m<256"
    } else if m < (1u128 << 63) {
        "m<2^63"
    } else if m < (1u128 << 70) {
        "2^63<=m<2^70"
    } else {
        "m>=2^70"
    }
}
fn dclass(d: i8) -> &'static str {
    if d <= -64 {
        "delta<=-64"
    } else if d < 0 {
        "-64<delta<0"
    } else if d == 0 {
        "delta=0"
    } else {
        "delta>0"
    }
}

pub fn run(p: &Params) -> Report {
    let mut rep = Report::new("C17");
    rep.rule = "cases = (multiplier m, delta d, TIP-901 on/off): m in 0..=300 and 2^k-1, 2^k, 2^k+1 for k <= 70 (quick: every third k plus 62..70), all 256 deltas, before and after TIP-901 on 9 (network, height) configurations incl. mainnet 42699/42700/100000/179999 and testnet 499/500; each case seals a fabricated state with seal(Some(action)) and with seal(None) and reads header().fee_multiplier. Oracle: exact big-integer step m + trunc(max(m>>7, 2*[901]) * d / 128); if that is negative the result must not exceed m; no panic; None leaves m unchanged. Plus long runs of +127 and -128. Non-trivial = every case; distinct by (m, d, tip901)".into();
    let mut ms: Vec<u128> = (0..=300u128).collect();
    for k in 9..=70u32 {
        if !p.thorough && k < 62 && k % 3 != 0 {
            continue;
        }
        let b = 1u128 << k;
        ms.extend_from_slice(&[b - 1, b, b + 1]);
    }
    if p.thorough {
        for k in 71..=100u32 {
            ms.push(1u128 << k);
        }
    }
    let mut idx = 0u64;
    // (network, height of the block that is sealed, is TIP-901 active there?) - the rule switches on mainnet at 42700 and on testnet at 500
    let configs: [(NetID, u64, bool); 9] = [
        (NetID::Mainnet, 100, false),
        (NetID::Custom02, 10, true),
        (NetID::Mainnet, 42_699, false),
        (NetID::Mainnet, 42_700, true),
        (NetID::Mainnet, 100_000, true),
        (NetID::Mainnet, 179_999, true),
        (NetID::Mainnet, 1_000_000, true),
        (NetID::Testnet, 499, false),
        (NetID::Testnet, 500, true),
    ];
    for (ci, (net, height, tip901)) in configs.iter().copied().enumerate() {
        // the first two configurations get every multiplier; the boundary configurations the small ones and a sample
        let ms_here: Vec<u128> = if ci < 2 { ms.clone() } else { ms.iter().copied().filter(|m| *m <= 300 && m % 3 == (ci as u128 % 3) || *m == 1u128 << 40 || *m == 255 || *m == 256).collect() };
        for m in ms_here.iter().copied() {
            idx += 1;
            if idx % p.nshards != p.shard {
                continue;
            }
            let db = new_db();
            // the parent is fabricated one block below, so that the sealed block has exactly `height`
            let mut fab = Fab::new(net, height - 1);
            fab.fee_multiplier = m;
            let parent = fab.build(&db);
            // None leaves it unchanged
            rep.eval();
            let un = parent.next_unsealed();
            match guarded(|| un.clone().seal(None).header().fee_multiplier) {
                Ok(v) => {
                    if v != m {
                        rep.violate("C17|changes-without-action|seal(None)|any", format!("multiplier {} became {} without a proposer action", m, v), json!({"m": m.to_string(), "tip901": tip901}));
                    }
                }
                Err(pn) => rep.violate(&format!("C17|seal-panics|seal(None)|{}", msg_class(&pn.message)), pn.message.clone(), json!({"m": m.to_string()})),
            }
            for d in -128i16..=127 {
                let d = d as i8;
                rep.eval();
                rep.nontrivial(fnv(format!("{}|{}|{}", m, d, tip901).as_bytes()));
                let action = ProposerAction { fee_multiplier_delta: d, reward_dest: destroy_addr() };
                let st = un.clone();
                let got = guarded(move || st.seal(Some(action)).header().fee_multiplier);
                let exp = expected(m, d, tip901);
                let wit = json!({"m": m.to_string(), "delta": d, "tip901": tip901, "network": format!("{:?}", net), "sealed_height": height, "got": format!("{:?}", got.as_ref().map_err(|e| e.message.clone())), "expected": exp.as_ref().map(|e| e.to_string())});
                if m >= (1u128 << 70) + 2 {
                    // beyond the stated range: only totality and no-wrap are required
                    match got {
                        Err(pn) => rep.violate(&format!("C17|seal-panics|seal(Some)|{},{}", mclass(m), dclass(d)), format!("{} at {}", pn.message, site(&pn.location)), wit),
                        Ok(v) => {
                            if (d < 0 && v > m) || (d > 0 && v < m) {
                                rep.violate(&format!("C17|wraps|seal(Some)|{},{}", mclass(m), dclass(d)), "multiplier moved against the sign of delta".into(), wit);
                            }
                        }
                    }
                    continue;
                }
                match (got, exp) {
                    (Err(pn), _) => {
                        rep.count("panics");
                        rep.violate(&format!("C17|seal-panics|seal(Some)|{},{}", mclass(m), dclass(d)), format!("{} at {}", pn.message, site(&pn.location)), wit)
                    }
                    (Ok(v), Some(e)) => {
                        rep.count("exact-step cases");
                        if BigInt::from(v) != e {
                            rep.violate(&format!("C17|wrong-step|seal(Some)|{},{}", mclass(m), dclass(d)), format!("expected {} got {}", e, v), wit);
                        }
                        // bound: |change| <= max(m/128, 2)
                        let ch = (BigInt::from(v) - BigInt::from(m)).abs();
                        let bound = BigInt::from((m >> 7).max(2));
                        if ch > bound {
                            rep.violate(&format!("C17|step-exceeds-bound|seal(Some)|{},{}", mclass(m), dclass(d)), format!("moved by {} > {}", ch, bound), json!({"m": m.to_string(), "delta": d}));
                        }
                    }
                    (Ok(v), None) => {
                        rep.count("step-below-zero cases");
                        if v > m {
                            rep.violate(&format!("C17|wraps-below-zero|seal(Some)|{},{}", mclass(m), dclass(d)), format!("multiplier {} with delta {} became {}", m, d, v), wit);
                        }
                    }
                }
            }
            if rep.samples.len() < 3 && m > 300 {
                rep.sample(json!({"m": m.to_string(), "tip901": tip901, "deltas": "-128..=127", "example_expected_for_+127": expected(m, 127, tip901).map(|e| e.to_string())}));
            }
        }
    }
    // long runs of extreme deltas
    if p.shard == 0 {
        let blocks = p.n(1500, 6000);
        for (start, d) in [(1_000_000u128, 127i8), (1_000_000u128, -128i8), (300u128, -128i8)] {
            let db = new_db();
            let mut fab = Fab::new(NetID::Custom02, 10);
            fab.fee_multiplier = start;
            let mut cur = fab.build(&db);
            let mut m = start;
            for b in 0..blocks {
                rep.eval();
                let action = ProposerAction { fee_multiplier_delta: d, reward_dest: destroy_addr() };
                let un = cur.next_unsealed();
                match guarded(move || un.seal(Some(action))) {
                    Ok(s) => {
                        let v = s.header().fee_multiplier;
                        match expected(m, d, true) {
                            Some(e) => {
                                if BigInt::from(v) != e {
                                    rep.violate("C17|wrong-step|seal(Some)|long-run", format!("block {}: from {} expected {} got {}", b, m, e, v), json!({"start": start.to_string(), "delta": d, "block": b}));
                                    break;
                                }
                            }
                            None => {
                                if v > m {
                                    rep.violate("C17|wraps-below-zero|seal(Some)|long-run", format!("block {}: {} -> {}", b, m, v), json!({"start": start.to_string(), "delta": d, "block": b}));
                                    break;
                                }
                            }
                        }
                        m = v;
                        cur = s;
                    }
                    Err(pn) => {
                        rep.violate("C17|seal-panics|seal(Some)|long-run", format!("block {}: m={} {}", b, m, pn.message), json!({"start": start.to_string(), "delta": d, "block": b, "m": m.to_string()}));
                        break;
                    }
                }
            }
            rep.count("long runs");
            rep.sample(json!({"long_run": {"start": start.to_string(), "delta": d, "blocks": blocks, "final": m.to_string()}}));
        }
    }
    let _ = BigInt::zero().to_u128();
    rep.require("exact-step cases", 10_000);
    rep
}
