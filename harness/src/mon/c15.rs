//! C15 - Melswap settles only genuine requests, at one fair price, pro rata.
use std::collections::{BTreeMap, HashMap, HashSet};

use melstructs::{CoinDataHeight, CoinID, Denom, PoolKey, PoolState, Transaction, TxKind};
use num::bigint::BigUint;
use num::integer::Roots;
use num::Zero;
use serde_json::json;

use crate::gen::*;
use crate::mon::c01::liq_denom_of_slot;
use crate::report::Report;
use crate::rng::{fnv, Rng};
use crate::world::*;
use crate::Params;

pub struct C15 {
    pub rep: Report,
    pub case_seed: u64,
}

fn b(x: u128) -> BigUint {
    BigUint::from(x)
}

fn spelling(data: &[u8]) -> &'static str {
    match PoolKey::from_bytes(data) {
        None => "no-pool-key",
        Some(k) => {
            if k.to_bytes() == data && k.left().to_bytes() < k.right().to_bytes() {
                "canonical"
            } else if data.len() > 32 && k.left().to_bytes() > k.right().to_bytes() {
                "long-reversed"
            } else if data.len() > 32 && k.left() == k.right() {
                "long-equal-sides"
            } else if data.len() > 32 {
                "long-form-of-short-name"
            } else {
                "other"
            }
        }
    }
}

fn coins_of(v: &View) -> BTreeMap<[u8; 32], CoinDataHeight> {
    v.coin_entries().map(|(k, c)| (*k, c)).collect()
}
fn pools_of(v: &View) -> BTreeMap<[u8; 32], PoolState> {
    v.pool_entries().map(|(k, p)| (*k, p)).collect()
}

struct Ctx<'a> {
    w: &'a World,
    ev: &'a SealEvent,
    by_hash: HashMap<melstructs::TxHash, &'a Transaction>,
}

impl C15 {
    fn wit(&self, cx: &Ctx, extra: serde_json::Value) -> serde_json::Value {
        json!({
            "case_seed": self.case_seed, "origin": cx.w.origin, "height": cx.ev.height,
            "block_txs": cx.ev.block_txs.iter().map(tx_brief).collect::<Vec<_>>(),
            "block_txs_hex": cx.ev.block_txs.iter().map(tx_hex).collect::<Vec<_>>(),
            "detail": extra,
        })
    }

    /// Returns, per pool slot, the requests whose coins changed in this phase: (tx, old coin 0, new coin 0)
    fn phase(&mut self, cx: &Ctx, phase: &str, kind: TxKind, a: &View, bv: &View) {
        let ca = coins_of(a);
        let cb = coins_of(bv);
        let pa = pools_of(a);
        let pb = pools_of(bv);
        let mut changed: Vec<[u8; 32]> = vec![];
        for (k, v) in cb.iter() {
            if ca.get(k) != Some(v) {
                changed.push(*k);
            }
        }
        for k in ca.keys() {
            if !cb.contains_key(k) {
                changed.push(*k);
            }
        }
        // group by transaction
        let mut per_tx: BTreeMap<melstructs::TxHash, Vec<u8>> = BTreeMap::new();
        for k in &changed {
            match cx.w.known_ids.get(k) {
                None => {
                    self.rep.violate(&format!("C15|R1-unknown-coin-changed|phase:{}|unknown", phase), "a coin the block's transactions do not name changed during sealing".into(), self.wit(cx, json!({"key": hex::encode(k)})));
                }
                Some(id) => per_tx.entry(id.txhash).or_default().push(id.index),
            }
        }
        let mut by_slot: BTreeMap<[u8; 32], Vec<&Transaction>> = BTreeMap::new();
        for (h, idxs) in per_tx.iter() {
            let tx = match cx.by_hash.get(h) {
                Some(t) => *t,
                None => {
                    self.rep.violate(&format!("C15|R1-nonrequest-output-changed|phase:{}|coin-of-earlier-block", phase), "an output of a transaction that is not in this block changed during sealing".into(), self.wit(cx, json!({"txhash": hex::encode(h.0 .0), "indexes": idxs})));
                    continue;
                }
            };
            let sp = spelling(&tx.data);
            let allowed: &[u8] = match kind {
                TxKind::Swap => &[0],
                _ => &[0, 1],
            };
            let genuine_kind = tx.kind == kind;
            // a name with one denomination on both sides names no pool (a pool has two sides, each its own denomination)
            let key = PoolKey::from_bytes(&tx.data).filter(|k| k.left() != k.right());
            let denoms_ok = match (&key, kind) {
                (Some(k), TxKind::Swap) => !tx.outputs.is_empty() && (tx.outputs[0].denom == k.left() || tx.outputs[0].denom == k.right()),
                (Some(k), TxKind::LiqDeposit) => tx.outputs.len() >= 2 && tx.outputs[0].denom == k.left() && tx.outputs[1].denom == k.right(),
                (Some(k), TxKind::LiqWithdraw) => tx.outputs.len() == 1 && tx.outputs[0].denom == k.liq_token_denom(),
                _ => false,
            };
            if !genuine_kind || key.is_none() || !denoms_ok || idxs.iter().any(|i| !allowed.contains(i)) {
                let why = if !genuine_kind { format!("kind={}", tx.kind) } else if key.is_none() { "data-not-a-pool-key".to_string() } else if !denoms_ok { "wrong-output-denominations".to_string() } else { "output-index-not-part-of-request".to_string() };
                self.rep.violate(
                    &format!("C15|R1-nonrequest-output-changed|phase:{}|{},data={}", phase, why, sp),
                    format!("outputs {:?} of a transaction that is not a genuine {} request were rewritten at sealing", idxs, phase),
                    self.wit(cx, json!({"tx": tx_brief(tx), "indexes": idxs})),
                );
                continue;
            }
            let k = key.unwrap();
            by_slot.entry(pool_slot_key(&k.to_bytes())).or_default().push(tx);
        }
        // pools that changed must have requests
        let mut slots: HashSet<[u8; 32]> = by_slot.keys().copied().collect();
        for (k, p) in pb.iter() {
            let before = pa.get(k);
            let same = before.map(|q| q.lefts == p.lefts && q.rights == p.rights && q.liqs == p.liqs).unwrap_or(false);
            if !same {
                slots.insert(*k);
            }
        }
        for slot in slots {
            let reqs = by_slot.get(&slot).cloned().unwrap_or_default();
            let bytes = match cx.w.pool_slots.get(&slot) {
                Some(x) => x.clone(),
                None => {
                    self.rep.violate(&format!("C15|pool-under-unknown-name|phase:{}|slot", phase), "a pool entry changed under a key no transaction named".into(), self.wit(cx, json!({"slot": hex::encode(slot)})));
                    continue;
                }
            };
            let (dl, dr) = match slot_denoms(&bytes) {
                Some(x) => x,
                None => continue,
            };
            let pre = pa.get(&slot).copied();
            let post = pb.get(&slot).copied();
            if reqs.is_empty() {
                self.rep.violate(&format!("C15|pool-changed-without-request|phase:{}|{}", phase, "no-request"), "a pool's reserves or liquidity changed in a phase in which no genuine request named it".into(), self.wit(cx, json!({"slot": hex::encode(&bytes), "before": format!("{:?}", pre), "after": format!("{:?}", post)})));
                continue;
            }
            let sp = spelling(&reqs[0].data);
            match kind {
                TxKind::Swap => self.settle_swaps(cx, &bytes, dl, dr, pre, post, &reqs, &ca, &cb, sp),
                TxKind::LiqDeposit => self.settle_deposits(cx, &bytes, dl, dr, pre, post, &reqs, &ca, &cb, sp),
                _ => self.settle_withdrawals(cx, &bytes, dl, dr, pre, post, &reqs, &ca, &cb, sp),
            }
        }
    }

    #[allow(clippy::too_many_arguments)]
    fn settle_swaps(&mut self, cx: &Ctx, slot: &[u8], dl: Denom, dr: Denom, pre: Option<PoolState>, post: Option<PoolState>, reqs: &[&Transaction], ca: &BTreeMap<[u8; 32], CoinDataHeight>, cb: &BTreeMap<[u8; 32], CoinDataHeight>, sp: &str) {
        let (pre, post) = match (pre, post) {
            (Some(a), Some(b)) => (a, b),
            _ => {
                self.rep.violate(&format!("C15|swap-against-missing-pool|phase:swaps|{}", sp), "swap outputs were rewritten although the pool does not exist before and after".into(), self.wit(cx, json!({"slot": hex::encode(slot)})));
                return;
            }
        };
        self.rep.count("pools settled in a swap phase");
        self.rep.count_n("swap requests settled", reqs.len() as u64);
        // (input value, input denom, output value, output denom)
        let mut legs = vec![];
        for tx in reqs {
            let k = coin_key(&CoinID { txhash: tx.hash_nosigs(), index: 0 });
            let (o, n) = match (ca.get(&k), cb.get(&k)) {
                (Some(o), Some(n)) => (o, n),
                _ => {
                    self.rep.violate(&format!("C15|R1-swap-output-removed|phase:swaps|{}", sp), "a swap request's first output disappeared".into(), self.wit(cx, json!({"tx": tx_brief(tx)})));
                    return;
                }
            };
            if o.coin_data.covhash != n.coin_data.covhash || o.coin_data.additional_data != n.coin_data.additional_data || n.height.0 != cx.ev.height {
                self.rep.violate(&format!("C15|R1-swap-output-fields-changed|phase:swaps|{}", sp), "a swap changed more than value and denomination of the first output".into(), self.wit(cx, json!({"tx": tx_brief(tx)})));
            }
            legs.push((o.coin_data.value.0, o.coin_data.denom, n.coin_data.value.0, n.coin_data.denom));
        }
        // R7: each coin goes from one canonical side to the other
        for (iv, id, ov, od) in &legs {
            let ok = (*id == dl && *od == dr) || (*id == dr && *od == dl);
            if !ok || dl == dr {
                self.rep.violate(
                    &format!("C15|R7-wrong-side-denomination|phase:swaps|spelling={}", sp),
                    format!("a swap against the pool stored as {}/{} turned {} {} into {} {}", denom_name(&dl), denom_name(&dr), iv, denom_name(id), ov, denom_name(od)),
                    self.wit(cx, json!({"slot": hex::encode(slot)})),
                );
                return;
            }
        }
        let cred_l: BigUint = legs.iter().filter(|l| l.1 == dl).map(|l| b(l.0)).sum();
        let cred_r: BigUint = legs.iter().filter(|l| l.1 == dr).map(|l| b(l.0)).sum();
        let paid_l: BigUint = legs.iter().filter(|l| l.3 == dl).map(|l| b(l.2)).sum();
        let paid_r: BigUint = legs.iter().filter(|l| l.3 == dr).map(|l| b(l.2)).sum();
        let payees_l = legs.iter().filter(|l| l.3 == dl).count();
        let payees_r = legs.iter().filter(|l| l.3 == dr).count();
        let lp = b(pre.lefts) + &cred_l;
        let rp = b(pre.rights) + &cred_r;
        let detail = json!({"slot": hex::encode(slot), "pre": format!("{:?}", pre), "post": format!("{:?}", post), "credited": [cred_l.to_string(), cred_r.to_string()], "paid": [paid_l.to_string(), paid_r.to_string()], "legs": legs.iter().map(|l| format!("{} {} -> {} {}", l.0, denom_name(&l.1), l.2, denom_name(&l.3))).collect::<Vec<_>>()});
        if lp > b(u128::MAX) || rp > b(u128::MAX) {
            self.rep.count("excluded: reserves would saturate");
            return;
        }
        if b(post.lefts) > lp || b(post.rights) > rp {
            self.rep.violate(&format!("C15|R5-reserve-credited-more-than-taken|phase:swaps|spelling={}", sp), "a reserve grew by more than the coins put in".into(), self.wit(cx, detail));
            return;
        }
        let debit_l = &lp - b(post.lefts);
        let debit_r = &rp - b(post.rights);
        // R5: what the pool gave up covers what was paid, up to rounding dust
        for (side, debit, paid, payees) in [("left", &debit_l, &paid_l, payees_l), ("right", &debit_r, &paid_r, payees_r)] {
            if paid > debit {
                self.rep.violate(&format!("C15|R5-paid-more-than-debited|phase:swaps|{},spelling={}", side, sp), format!("{} side paid out {} but the reserve fell by only {}", side, paid, debit), self.wit(cx, detail.clone()));
                return;
            }
            let capped = legs.iter().any(|l| l.2 == MAX_COINVAL);
            if !capped && debit - paid > b(payees.max(1) as u128) {
                self.rep.violate(&format!("C15|R5-debited-more-than-paid|phase:swaps|{},spelling={}", side, sp), format!("{} reserve fell by {} but only {} was paid out to {} requests", side, debit, paid, payees), self.wit(cx, detail.clone()));
                return;
            }
        }
        // R3: the product never decreases
        if b(post.lefts) * b(post.rights) < b(pre.lefts) * b(pre.rights) {
            self.rep.violate(&format!("C15|R3-product-decreased|phase:swaps|spelling={}", sp), "the reserve product fell across the swap phase".into(), self.wit(cx, detail.clone()));
        }
        // R4: total out <= constant-product amount less 0.5%
        if !lp.is_zero() && !rp.is_zero() {
            let bound_r = (&cred_l * &rp * b(995)) / (&lp * b(1000));
            let bound_l = (&cred_r * &lp * b(995)) / (&rp * b(1000));
            if debit_r > bound_r || debit_l > bound_l {
                self.rep.violate(&format!("C15|R4-pays-more-than-constant-product-less-fee|phase:swaps|spelling={}", sp), format!("debits {}/{} exceed the bounds {}/{}", debit_l, debit_r, bound_l, bound_r), self.wit(cx, detail.clone()));
            }
        }
        // R2: pro rata, rounded down
        for (iv, id, ov, _) in &legs {
            let (total_out, total_in) = if *id == dl { (&debit_r, &cred_l) } else { (&debit_l, &cred_r) };
            let want = if total_in.is_zero() { BigUint::zero() } else { (total_out * b(*iv)) / total_in };
            let want = want.min(b(MAX_COINVAL));
            if b(*ov) != want {
                self.rep.violate(&format!("C15|R2-not-pro-rata|phase:swaps|spelling={}", sp), format!("a request that put in {} of {} received {} instead of floor({}*{}/{}) = {}", iv, total_in, ov, total_out, iv, total_in, want), self.wit(cx, detail.clone()));
                return;
            }
        }
        if legs.len() >= 2 {
            self.rep.count("pools with several swap requests in one block");
        }
    }

    #[allow(clippy::too_many_arguments)]
    fn settle_deposits(&mut self, cx: &Ctx, slot: &[u8], dl: Denom, dr: Denom, pre: Option<PoolState>, post: Option<PoolState>, reqs: &[&Transaction], ca: &BTreeMap<[u8; 32], CoinDataHeight>, cb: &BTreeMap<[u8; 32], CoinDataHeight>, sp: &str) {
        let post = match post {
            Some(p) => p,
            None => {
                self.rep.violate(&format!("C15|deposit-without-pool|phase:deposits|{}", sp), "deposit outputs were rewritten but no pool exists afterwards".into(), self.wit(cx, json!({"slot": hex::encode(slot)})));
                return;
            }
        };
        self.rep.count("pools settled in a deposit phase");
        self.rep.count_n("deposit requests settled", reqs.len() as u64);
        let liq = liq_denom_of_slot(slot);
        let mut rows = vec![]; // (l_i, r_i, q_i)
        for tx in reqs {
            let h = tx.hash_nosigs();
            let k0 = coin_key(&CoinID { txhash: h, index: 0 });
            let k1 = coin_key(&CoinID { txhash: h, index: 1 });
            let (o0, o1, n0) = match (ca.get(&k0), ca.get(&k1), cb.get(&k0)) {
                (Some(a), Some(c), Some(n)) => (a, c, n),
                _ => {
                    self.rep.violate(&format!("C15|R1-deposit-coins-missing|phase:deposits|{}", sp), "a deposit was settled although one of its two coins was not unspent, or its first coin vanished".into(), self.wit(cx, json!({"tx": tx_brief(tx)})));
                    return;
                }
            };
            if cb.contains_key(&k1) {
                self.rep.violate(&format!("C15|R1-deposit-second-coin-kept|phase:deposits|{}", sp), "the second coin of a settled deposit still exists".into(), self.wit(cx, json!({"tx": tx_brief(tx)})));
                return;
            }
            if o0.coin_data.denom != dl || o1.coin_data.denom != dr || n0.coin_data.denom != liq {
                self.rep.violate(
                    &format!("C15|R7-wrong-side-denomination|phase:deposits|spelling={}", sp),
                    format!("a deposit into the pool stored as {}/{} took {} and {} and issued {}", denom_name(&dl), denom_name(&dr), denom_name(&o0.coin_data.denom), denom_name(&o1.coin_data.denom), denom_name(&n0.coin_data.denom)),
                    self.wit(cx, json!({"slot": hex::encode(slot), "tx": tx_brief(tx)})),
                );
                return;
            }
            if n0.coin_data.covhash != o0.coin_data.covhash || n0.height.0 != cx.ev.height {
                self.rep.violate(&format!("C15|R1-deposit-output-fields-changed|phase:deposits|{}", sp), "a deposit changed the owner of the first output".into(), self.wit(cx, json!({"tx": tx_brief(tx)})));
            }
            rows.push((o0.coin_data.value.0, o1.coin_data.value.0, n0.coin_data.value.0));
        }
        let tl: BigUint = rows.iter().map(|r| b(r.0)).sum();
        let tr: BigUint = rows.iter().map(|r| b(r.1)).sum();
        let (l0, r0, q0) = pre.map(|p| (p.lefts, p.rights, p.liqs)).unwrap_or((0, 0, 0));
        let detail = json!({"slot": hex::encode(slot), "pre": format!("{:?}", pre), "post": format!("{:?}", post), "deposits": rows.iter().map(|r| format!("{} + {} -> {} liq", r.0, r.1, r.2)).collect::<Vec<_>>()});
        if b(l0) + &tl > b(u128::MAX) || b(r0) + &tr > b(u128::MAX) {
            self.rep.count("excluded: reserves would saturate");
            return;
        }
        // reserves move by exactly what was taken (a pool without liquidity restarts from the deposit)
        let fresh = q0 == 0;
        let (want_l, want_r) = if fresh { (tl.clone(), tr.clone()) } else { (b(l0) + &tl, b(r0) + &tr) };
        if b(post.lefts) != want_l || b(post.rights) != want_r {
            if fresh && (l0 != 0 || r0 != 0) {
                self.rep.count("deposits into a pool with reserves but no liquidity (restart)");
            }
            self.rep.violate(&format!("C15|R5-reserves-not-credited-exactly|phase:deposits|spelling={}", sp), format!("reserves after deposits {}/{} but expected {}/{}", post.lefts, post.rights, want_l, want_r), self.wit(cx, detail.clone()));
            return;
        }
        // minted liquidity
        if post.liqs < q0 {
            self.rep.violate(&format!("C15|R6-liquidity-decreased|phase:deposits|spelling={}", sp), "liqs fell across a deposit".into(), self.wit(cx, detail.clone()));
            return;
        }
        let minted = b(post.liqs - q0);
        let want_minted = if fresh {
            tl.clone()
        } else if l0 == 0 || r0 == 0 {
            self.rep.count("excluded: deposit into a pool with an empty side");
            return;
        } else {
            ((b(q0) * b(q0) * &tl * &tr) / (b(l0) * b(r0))).sqrt()
        };
        if want_minted <= b(u128::MAX - q0) && minted != want_minted {
            self.rep.violate(&format!("C15|R6-minted-liquidity-wrong|phase:deposits|{}spelling={}", if fresh { "first-deposit," } else { "" }, sp), format!("minted {} but sqrt(liqs^2*dl*dr/(L*R)) (or the left amount for a first deposit) is {}", minted, want_minted), self.wit(cx, detail.clone()));
            return;
        }
        // distribution: never more than minted, and in proportion to sqrt(l_i)*sqrt(r_i)
        let issued: BigUint = rows.iter().map(|r| b(r.2)).sum();
        if issued > minted {
            self.rep.violate(&format!("C15|R6-issued-more-than-minted|phase:deposits|{}", if rows.len() > 1 { "several-deposits" } else { "single-deposit" }), format!("depositors received {} liquidity tokens in total, the pool minted {}", issued, minted), self.wit(cx, detail.clone()));
            return;
        }
        let ms: Vec<BigUint> = rows.iter().map(|r| b(r.0.sqrt()) * b(r.1.sqrt())).collect();
        for i in 0..rows.len() {
            for j in (i + 1)..rows.len() {
                let a = b(rows[i].2) * &ms[j];
                let c = b(rows[j].2) * &ms[i];
                let diff = if a > c { &a - &c } else { &c - &a };
                if diff > &ms[i] + &ms[j] {
                    self.rep.violate(&format!("C15|R6-shares-not-proportional|phase:deposits|spelling={}", sp), "two depositors' liquidity tokens are not in proportion to sqrt(l)*sqrt(r) of their deposits".into(), self.wit(cx, detail.clone()));
                    return;
                }
            }
        }
        if rows.len() >= 2 {
            self.rep.count("pools with several deposits in one block");
        }
    }

    #[allow(clippy::too_many_arguments)]
    fn settle_withdrawals(&mut self, cx: &Ctx, slot: &[u8], dl: Denom, dr: Denom, pre: Option<PoolState>, post: Option<PoolState>, reqs: &[&Transaction], ca: &BTreeMap<[u8; 32], CoinDataHeight>, cb: &BTreeMap<[u8; 32], CoinDataHeight>, sp: &str) {
        let (pre, post) = match (pre, post) {
            (Some(a), Some(c)) => (a, c),
            _ => {
                self.rep.violate(&format!("C15|withdrawal-without-pool|phase:withdrawals|{}", sp), "withdrawal outputs were rewritten although the pool does not exist".into(), self.wit(cx, json!({"slot": hex::encode(slot)})));
                return;
            }
        };
        self.rep.count("pools settled in a withdrawal phase");
        self.rep.count_n("withdrawal requests settled", reqs.len() as u64);
        let liq = liq_denom_of_slot(slot);
        let mut rows = vec![]; // (w_i, a_i, b_i)
        for tx in reqs {
            let h = tx.hash_nosigs();
            let k0 = coin_key(&CoinID { txhash: h, index: 0 });
            let k1 = coin_key(&CoinID { txhash: h, index: 1 });
            let (o0, n0, n1) = match (ca.get(&k0), cb.get(&k0), cb.get(&k1)) {
                (Some(o), Some(n), Some(m)) => (o, n, m),
                _ => {
                    self.rep.violate(&format!("C15|R1-withdrawal-coins-missing|phase:withdrawals|{}", sp), "a settled withdrawal does not show its two resulting coins".into(), self.wit(cx, json!({"tx": tx_brief(tx)})));
                    return;
                }
            };
            if o0.coin_data.denom != liq || n0.coin_data.denom != dl || n1.coin_data.denom != dr {
                self.rep.violate(
                    &format!("C15|R7-wrong-side-denomination|phase:withdrawals|spelling={}", sp),
                    format!("a withdrawal from the pool stored as {}/{} redeemed {} and paid {} and {}", denom_name(&dl), denom_name(&dr), denom_name(&o0.coin_data.denom), denom_name(&n0.coin_data.denom), denom_name(&n1.coin_data.denom)),
                    self.wit(cx, json!({"slot": hex::encode(slot), "tx": tx_brief(tx)})),
                );
                return;
            }
            if n0.coin_data.covhash != o0.coin_data.covhash || n1.coin_data.covhash != o0.coin_data.covhash || n1.coin_data.additional_data != o0.coin_data.additional_data || n1.height.0 != cx.ev.height {
                self.rep.violate(&format!("C15|R1-withdrawal-output-fields-changed|phase:withdrawals|{}", sp), "the coins paid by a withdrawal do not belong to the redeemer".into(), self.wit(cx, json!({"tx": tx_brief(tx)})));
            }
            rows.push((o0.coin_data.value.0, n0.coin_data.value.0, n1.coin_data.value.0));
        }
        let burned: BigUint = rows.iter().map(|r| b(r.0)).sum();
        let detail = json!({"slot": hex::encode(slot), "pre": format!("{:?}", pre), "post": format!("{:?}", post), "withdrawals": rows.iter().map(|r| format!("{} liq -> {} + {}", r.0, r.1, r.2)).collect::<Vec<_>>()});
        if b(pre.liqs) < burned || b(pre.liqs) - &burned != b(post.liqs) {
            self.rep.violate(&format!("C15|R6-burned-liquidity-wrong|phase:withdrawals|spelling={}", sp), format!("liqs went {} -> {} while {} tokens were redeemed", pre.liqs, post.liqs, burned), self.wit(cx, detail.clone()));
            return;
        }
        if post.lefts > pre.lefts || post.rights > pre.rights {
            self.rep.violate(&format!("C15|R5-reserve-grew-in-withdrawal|phase:withdrawals|spelling={}", sp), "a reserve grew across the withdrawal phase".into(), self.wit(cx, detail.clone()));
            return;
        }
        let out_l = b(pre.lefts - post.lefts);
        let out_r = b(pre.rights - post.rights);
        let (want_l, want_r) = if post.liqs == 0 {
            (b(pre.lefts), b(pre.rights))
        } else {
            ((b(pre.lefts) * &burned) / b(pre.liqs), (b(pre.rights) * &burned) / b(pre.liqs))
        };
        if out_l != want_l || out_r != want_r {
            self.rep.violate(&format!("C15|R6-withdrawn-share-wrong|phase:withdrawals|spelling={}", sp), format!("reserves fell by {}/{} but the redeemed share is {}/{}", out_l, out_r, want_l, want_r), self.wit(cx, detail.clone()));
            return;
        }
        for r in &rows {
            let wa = if burned.is_zero() { BigUint::zero() } else { (&out_l * b(r.0)) / &burned };
            let wb = if burned.is_zero() { BigUint::zero() } else { (&out_r * b(r.0)) / &burned };
            if b(r.1) != wa || b(r.2) != wb {
                self.rep.violate(&format!("C15|R2-not-pro-rata|phase:withdrawals|spelling={}", sp), format!("a redeemer of {} of {} tokens received {}/{} instead of {}/{}", r.0, burned, r.1, r.2, wa, wb), self.wit(cx, detail.clone()));
                return;
            }
        }
        if rows.len() >= 2 {
            self.rep.count("pools with several withdrawals in one block");
        }
    }
}

impl Monitor for C15 {
    fn on_seal(&mut self, w: &World, ev: &SealEvent) {
        if ev.panic.is_some() || ev.phases.len() < 8 {
            self.rep.count("seal did not complete (left to C09)");
            if let Some(p) = &ev.panic {
                self.rep.note(&format!("seal panicked (C09's business): {} @ {} [{}] case_seed={}", p.message, p.location, p.origin, self.case_seed));
                if std::env::var("MELVERIF_DEBUG").is_ok() {
                    eprintln!("DEBUG seal panic after {} phases at height {} net {:?}", ev.phases.len(), ev.height, ev.net);
                    for t in &ev.block_txs {
                        eprintln!("   {}", tx_brief(t));
                    }
                    if let Some(v) = ev.phases.last() {
                        for (k, p) in v.pool_entries() {
                            eprintln!("   pool {:?} {:?}", w.pool_slots.get(k).map(hex::encode), p);
                        }
                    }
                }
            }
            return;
        }
        if legacy_net(ev.net) && ev.height < LEGACY_DEPOSIT_BELOW {
            self.rep.count("excluded: block inside the legacy rule window (mainnet/testnet below 978392)");
            return;
        }
        self.rep.eval();
        self.rep.count("sealed blocks");
        let by_hash: HashMap<melstructs::TxHash, &Transaction> = ev.block_txs.iter().map(|t| (t.hash_nosigs(), t)).collect();
        let cx = Ctx { w, ev, by_hash };
        // classes of transactions carrying pool-key data, for the evidence
        for t in &ev.block_txs {
            if PoolKey::from_bytes(&t.data).is_some() {
                self.rep.count(&format!("transactions with pool-key data: kind={} spelling={}", t.kind, spelling(&t.data)));
            }
        }
        let reqs = ev.block_txs.iter().filter(|t| PoolKey::from_bytes(&t.data).is_some()).count();
        if reqs > 0 {
            let mut fp = ev.height.to_be_bytes().to_vec();
            for t in &ev.block_txs {
                fp.extend_from_slice(&t.hash_nosigs().0 .0);
            }
            self.rep.nontrivial(fnv(&fp));
        }
        // nothing but built-in creation may happen before the swap phase
        self.phase(&cx, "swaps", TxKind::Swap, &ev.phases[1], &ev.phases[2]);
        self.phase(&cx, "deposits", TxKind::LiqDeposit, &ev.phases[2], &ev.phases[3]);
        self.phase(&cx, "withdrawals", TxKind::LiqWithdraw, &ev.phases[3], &ev.phases[4]);
        // outside the three settlement phases no coin may change except the proposer's reward coin
        let c4 = coins_of(&ev.phases[4]);
        let c7 = coins_of(&ev.phases[7]);
        let reward = coin_key(&CoinID::proposer_reward(melstructs::BlockHeight(ev.height)));
        for (k, v) in c7.iter() {
            if c4.get(k) != Some(v) && *k != reward {
                self.rep.violate("C15|R1-coin-changed-outside-settlement|phase:pegging..proposer|any", "a coin changed after the settlement phases".into(), self.wit(&cx, json!({"key": hex::encode(k)})));
            }
        }
        let c0 = coins_of(&ev.phases[0]);
        let c1 = coins_of(&ev.phases[1]);
        if c0 != c1 {
            self.rep.violate("C15|R1-coin-changed-outside-settlement|phase:builtins|any", "a coin changed while the built-in pools were created".into(), self.wit(&cx, json!(null)));
        }
        if self.rep.samples.len() < self.rep.max_samples && reqs >= 3 {
            self.rep.sample(json!({"height": ev.height, "origin": w.origin, "pool_transactions": ev.block_txs.iter().filter(|t| PoolKey::from_bytes(&t.data).is_some()).map(|t| format!("{} {} out0={}:{}", t.kind, spelling(&t.data), t.outputs.first().map(|o| denom_name(&o.denom)).unwrap_or_default(), t.outputs.first().map(|o| o.value.0).unwrap_or(0))).collect::<Vec<_>>()}));
        }
    }
}

pub fn run(p: &Params) -> Report {
    let total = p.n(1200, 30000);
    let mine = p.share(total);
    let mut rng = Rng::new(p.shard_seed() ^ 0xC15);
    let mut mon = C15 { rep: Report::new("C15"), case_seed: 0 };
    mon.rep.rule = "cases = sealed blocks of pool-heavy histories mixing all kinds whose data may or may not parse as a pool key (canonical, long form of a short name, long reversed, equal sides), 1-30 requests per pool on both sides, amounts 1..2^120, built-in, custom and brand-new pools. From hooked snapshots around the swap, deposit and withdrawal phases: R1 a coin changes only if its transaction has the matching kind, pool-key data and output denominations (everything else bit-identical, also outside the phases); R2 pro-rata payouts floor(total_out*in_i/total_in); R3 reserve product never falls; R4 total out <= constant product less 0.5%; R5 reserves credited exactly, debited within rounding dust; R6 minted = left amount (first) or floor(sqrt(liqs^2*dl*dr/(L*R))), issued <= minted and proportional, withdrawals burn exactly and pay floor(reserve*share); R7 every side only takes and pays the canonical denomination of its storage slot. Non-trivial = block with pool-key data; distinct by member hashes".into();
    if p.only_case.is_none() {
        mon.rep.require("swap requests settled", p.n(800, 16000));
        mon.rep.require("deposit requests settled", p.n(300, 6000));
        mon.rep.require("withdrawal requests settled", p.n(100, 2000));
        mon.rep.require("pools with several swap requests in one block", p.n(100, 2000));
    }
    for case in 0..mine {
        let case_seed = rng.next();
        if let Some(only) = p.only_case {
            if only != case_seed {
                continue;
            }
        }
        mon.case_seed = case_seed;
        let mut w = World::random(case_seed);
        w.profile = Profile { normal: 8, newcustom: 5, faucet: 5, swap: 34, deposit: 20, withdraw: 16, stake: 1, doscmint: 1, hostile: 5, odd_spelling_permille: 200, wrong_kind_permille: 150, dependent_permille: 250, max_batch: 12, big_values_permille: 120, degenerate_permille: 40, fast_mint_permille: 0, crowd_permille: 0, big_block_permille: 0 };
        w.twin_deposits = case % 3 == 0;
        let blocks = 6 + (case % 14) as usize;
        run_history(&mut w, blocks, &mut [&mut mon]);
    }
    mon.rep
}
