//! C09 - validation is total: hostile input is rejected, never a crash or hang.
use std::collections::BTreeMap;
use std::io::Write;

use bytes::Bytes;
use melstructs::{Block, Denom, NetID, ProposerAction, Transaction, TxKind};
use serde_json::json;
use stdcode::StdcodeSerializeExt;

use crate::gen::*;
use crate::guard::{guarded, is_debug_only_dependency_overflow, msg_class, site, PanicInfo};
use crate::report::Report;
use crate::rng::{fnv, Rng};
use crate::world::*;
use crate::Params;

pub struct C09 {
    pub rep: Report,
    pub case_seed: u64,
    journal: Option<std::fs::File>,
}

fn hostile_class(labels: &[String]) -> String {
    // the most specific label: a degenerate/hostile member if there is one
    for l in labels {
        if let Some(i) = l.find("hostile:skeleton") {
            return l[i..].to_string();
        }
    }
    for l in labels {
        if let Some(i) = l.find("degenerate:") {
            let s = &l[i..];
            return s.split('+').next().unwrap_or(s).to_string();
        }
    }
    for l in labels {
        if let Some(i) = l.find("hostile:") {
            return l[i..].to_string();
        }
    }
    "ordinary".into()
}

const PHASES: [&str; 8] = ["builtins", "swaps", "deposits", "withdrawals", "pegging", "tip909", "proposer", "done"];

impl C09 {
    fn journal(&mut self, s: &str) {
        if let Some(f) = self.journal.as_mut() {
            let _ = writeln!(f, "{}", s);
            let _ = f.flush();
        }
    }
    fn panic(&mut self, w: &World, call: &str, class: &str, p: &PanicInfo, wit: serde_json::Value) {
        if is_debug_only_dependency_overflow(p) {
            self.rep.count(&format!("excluded: overflow trap inside dependency '{}' present only with overflow checks", p.origin));
            return;
        }
        let sig = format!("C09|panic:{}:{}|{}|{}", p.origin, msg_class(&p.message), call, class);
        let mut wj = wit;
        wj["panic"] = json!({"message": p.message, "location": p.location, "origin": p.origin});
        wj["case_seed"] = json!(self.case_seed);
        wj["origin"] = json!(w.origin);
        self.rep.violate(&sig, format!("{} panicked: {} at {}", call, p.message, site(&p.location)), wj);
    }
}

fn block_class(txs: &[Transaction]) -> String {
    let mut parts = vec![];
    let mut zero_swap = false;
    let mut zero_dep = false;
    let mut zero_wd = false;
    for t in txs {
        match t.kind {
            TxKind::Swap if t.outputs.first().map(|o| o.value.0 == 0).unwrap_or(false) => zero_swap = true,
            TxKind::LiqDeposit if t.outputs.len() >= 2 && (t.outputs[0].value.0 == 0 || t.outputs[1].value.0 == 0) => zero_dep = true,
            TxKind::LiqWithdraw if t.outputs.first().map(|o| o.value.0 == 0).unwrap_or(false) => zero_wd = true,
            _ => {}
        }
    }
    if zero_swap {
        parts.push("zero-valued-swap");
    }
    if zero_dep {
        parts.push("zero-sided-deposit");
    }
    if zero_wd {
        parts.push("zero-valued-withdrawal");
    }
    if txs.iter().any(|t| t.kind == TxKind::Faucet && t.outputs.iter().any(|o| is_custom(&o.denom))) {
        parts.push("faucet-custom-denom");
    }
    if parts.is_empty() {
        let mut kinds: Vec<String> = txs.iter().filter(|t| matches!(t.kind, TxKind::Swap | TxKind::LiqDeposit | TxKind::LiqWithdraw)).map(|t| format!("{}", t.kind)).collect();
        kinds.sort();
        kinds.dedup();
        if kinds.is_empty() { "no-pool-request".into() } else { format!("pool-requests:{}", kinds.join("+")) }
    } else {
        parts.join("+")
    }
}

impl Monitor for C09 {
    fn on_batch(&mut self, w: &World, ev: &BatchEvent) {
        self.rep.eval();
        self.rep.count("apply_tx_batch calls");
        let cls = hostile_class(&ev.labels);
        if cls != "ordinary" {
            self.rep.count(&format!("input:{}", cls.split("-difficulty").next().unwrap_or(&cls)));
            let mut fp = vec![];
            for t in &ev.txs {
                fp.extend_from_slice(&t.hash_nosigs().0 .0);
            }
            self.rep.nontrivial(fnv(&fp));
        }
        match &ev.result {
            Ok(Ok(())) => self.rep.count("batches accepted"),
            Ok(Err(_)) => self.rep.count("batches rejected"),
            Err(p) => {
                let p = p.clone();
                // attribute to the member the panic is about where the origin says so
                let cls = if p.origin == "melpow" {
                    ev.labels.iter().find_map(|l| l.find("doscmint").map(|i| format!("degenerate:{}", l[i..].split('+').next().unwrap_or("doscmint")))).unwrap_or(cls)
                } else {
                    cls
                };
                self.panic(w, "apply_tx_batch", &cls, &p, crate::mon::c02::batch_witness(w, ev, self.case_seed));
            }
        }
    }
    fn on_seal(&mut self, w: &World, ev: &SealEvent) {
        self.rep.eval();
        self.rep.count("seal calls");
        if let Some(p) = &ev.panic {
            let phase = if ev.header.is_some() { "next_unsealed".to_string() } else { format!("seal/phase:{}", PHASES[ev.phases.len().saturating_sub(1).min(7)]) };
            let p = p.clone();
            let wit = json!({"height": ev.height, "action": format!("{:?}", ev.action), "block_txs": ev.block_txs.iter().map(tx_brief).collect::<Vec<_>>(), "block_txs_hex": ev.block_txs.iter().map(tx_hex).collect::<Vec<_>>()});
            let cls = block_class(&ev.block_txs);
            self.panic(w, &phase, &cls, &p, wit);
        }
    }
}

/// Byte-level mutation of a serialized transaction that still deserializes.
fn mutate_bytes(r: &mut Rng, tx: &Transaction) -> Option<Transaction> {
    let mut b = tx.stdcode();
    for _ in 0..8 {
        let mut c = b.clone();
        match r.below(4) {
            0 => {
                let i = r.usize(c.len());
                c[i] ^= 1 << r.below(8);
            }
            1 => {
                let i = r.usize(c.len());
                c[i] = *r.pick(&[0u8, 1, 0x7f, 0x80, 0xfa, 0xfb, 0xfc, 0xfd, 0xfe, 0xff]);
            }
            2 => {
                let i = r.usize(c.len());
                c.insert(i, r.next() as u8);
            }
            _ => {
                if c.len() > 1 {
                    let i = r.usize(c.len());
                    c.remove(i);
                }
            }
        }
        if let Ok(t) = stdcode::deserialize::<Transaction>(&c) {
            if t != *tx {
                return Some(t);
            }
        }
        b = c;
    }
    None
}

fn scenario_history(mon: &mut C09, case_seed: u64, r: &mut Rng) {
    let mut w = World::random(case_seed);
    // multipliers incl. very large ones
    w.profile.hostile = 45;
    w.profile.degenerate_permille = 220;
    w.profile.odd_spelling_permille = 200;
    w.profile.wrong_kind_permille = 120;
    w.profile.withdraw = 14;
    w.profile.deposit = 14;
    w.allow_faucet_liq = w.net != NetID::Mainnet && r.chance(1, 3);
    let blocks = 4 + r.usize(10);
    for b in 0..blocks {
        if w.dead {
            return;
        }
        let nb = w.rng.usize(4);
        for k in 0..nb {
            let (mut txs, mut labels) = w.gen_batch();
            if txs.is_empty() {
                continue;
            }
            // sometimes replace one member by a byte-mutated version
            if w.rng.chance(1, 5) {
                let i = w.rng.usize(txs.len());
                let mut rr = w.rng.fork(7);
                if let Some(t) = mutate_bytes(&mut rr, &txs[i]) {
                    txs[i] = t;
                    labels[i] = format!("{}+hostile:byte-mutated", labels[i]);
                }
            }
            // sometimes add a skeleton: a transaction of any kind stripped of the parts the code may take for granted
            // (no inputs, no or zero-valued outputs, no fee, no covenants), with the member's data or none
            if w.rng.chance(1, 6) {
                let i = w.rng.usize(txs.len());
                let mut t = txs[i].clone();
                t.kind = *w.rng.pick(&[TxKind::Normal, TxKind::Stake, TxKind::DoscMint, TxKind::Swap, TxKind::LiqDeposit, TxKind::LiqWithdraw, TxKind::Faucet]);
                t.inputs.clear();
                t.fee = melstructs::CoinValue(0);
                match w.rng.below(3) {
                    0 => t.outputs.clear(),
                    1 => t.outputs.iter_mut().for_each(|o| o.value = melstructs::CoinValue(0)),
                    _ => t.outputs.truncate(1),
                }
                if w.rng.chance(1, 2) {
                    t.covenants.clear();
                    t.sigs.clear();
                }
                if w.rng.chance(1, 3) {
                    t.data = Bytes::new();
                }
                labels.push(format!("hostile:skeleton-no-inputs,{}", t.kind));
                txs.push(t);
            }
            mon.journal(&format!("C09 case={} block={} batch={} apply_tx_batch labels={:?}", case_seed, b, k, labels));
            let ev = w.apply_batch(txs, labels);
            mon.on_batch(&w, &ev);
            if w.dead {
                return;
            }
        }
        let action = if w.rng.chance(1, 2) {
            Some(ProposerAction { fee_multiplier_delta: *w.rng.pick(&[-128i8, -127, -64, -1, 0, 1, 64, 127]), reward_dest: w.random_addr() })
        } else {
            None
        };
        mon.journal(&format!("C09 case={} block={} seal action={:?} block_class={}", case_seed, b, action, block_class(&w.block_txs)));
        // apply_block / confirm / from_block on what we are about to seal
        let parent = w.tip.clone();
        let ev = w.seal_next(action);
        mon.on_seal(&w, &ev);
        if w.dead {
            return;
        }
        if let (Some(parent), Some(tip)) = (parent, w.tip.clone()) {
            if w.rng.chance(1, 3) {
                let blk = tip.to_block();
                mon.rep.eval();
                mon.rep.count("apply_block calls");
                mon.journal(&format!("C09 case={} block={} apply_block", case_seed, b));
                let mut bad = blk.clone();
                match w.rng.below(4) {
                    0 => bad.header.fee_pool.0 = u128::MAX,
                    1 => bad.proposer_action = Some(ProposerAction { fee_multiplier_delta: -128, reward_dest: destroy_addr() }),
                    2 => {
                        if let Some(t) = bad.transactions.iter().next().cloned() {
                            bad.transactions.remove(&t);
                        }
                    }
                    _ => {}
                }
                for (name, bl) in [("honest", &blk), ("mutated", &bad)] {
                    let pp = parent.clone();
                    let bl2: Block = bl.clone();
                    if let Err(p) = guarded(move || pp.apply_block(&bl2).map(|s| s.header())) {
                        let cls = format!("{}-block,{}", name, block_class(&ev.block_txs));
                        mon.panic(&w, "apply_block", &cls, &p, json!({"height": ev.height, "block_txs_hex": ev.block_txs.iter().map(tx_hex).collect::<Vec<_>>()}));
                    }
                }
                // confirm with junk
                mon.rep.eval();
                mon.rep.count("confirm calls");
                let t2 = tip.clone();
                let mut proof = BTreeMap::new();
                proof.insert(w.owners[0].key.pk, Bytes::from(w.rng.bytes(*w.rng.clone().pick(&[0usize, 1, 63, 64, 65]))));
                if let Err(p) = guarded(move || t2.confirm(proof).is_some()) {
                    mon.panic(&w, "confirm", "junk-proof", &p, json!({"height": ev.height}));
                }
                // from_block + header + next_unsealed
                mon.rep.eval();
                mon.rep.count("from_block calls");
                let stakes = tip.raw_stakes();
                let db = w.db.clone();
                if let Err(p) = guarded(move || {
                    let s = melstf::SealedState::from_block(&blk, &stakes, &db);
                    let h = s.header();
                    let _ = s.next_unsealed();
                    h
                }) {
                    mon.panic(&w, "from_block", "own-block", &p, json!({"height": ev.height}));
                }
            }
        }
    }
}

/// Deterministic probes: the exact inputs of the crash-class findings of DESIGN section 9, so that a
/// known finding is reported whether or not the random workload happens to hit it.
fn probes(mon: &mut C09) {
    // P1: zero-valued swap / deposit / withdrawal; P2: swap against a pool emptied by withdrawing everything
    for (i, net) in [NetID::Custom02, NetID::Testnet].iter().enumerate() {
        let mut w = World::fabricated(7000 + i as u64, *net, if *net == NetID::Testnet { 1_000_000 } else { 10 }, 0, 0);
        w.allow_faucet_liq = true;
        mon.case_seed = 7000 + i as u64;
        w.profile.degenerate_permille = 1000;
        w.profile.hostile = 0;
        w.profile.max_batch = 3;
        for b in 0..40 {
            if w.dead {
                break;
            }
            let (txs, labels) = w.gen_batch();
            if !txs.is_empty() {
                mon.journal(&format!("C09 probe world={} block={} labels={:?}", i, b, labels));
                let ev = w.apply_batch(txs, labels);
                mon.on_batch(&w, &ev);
            }
            if w.dead {
                break;
            }
            mon.journal(&format!("C09 probe world={} block={} seal class={}", i, b, block_class(&w.block_txs)));
            let ev = w.seal_next(None);
            mon.on_seal(&w, &ev);
        }
    }
    // P3: create a custom pool, withdraw everything, swap against it; P4: faucet liquidity then over-withdraw
    let mut w = World::fabricated(7100, NetID::Custom03, 10, 0, 0);
    mon.case_seed = 7100;
    w.allow_faucet_liq = true;
    w.profile.hostile = 0;
    let script = |w: &mut World, mon: &mut C09, tx: Option<(Transaction, String)>| {
        if let Some((t, l)) = tx {
            let ev = w.apply_batch(vec![t], vec![l]);
            mon.on_batch(w, &ev);
        }
        if !w.dead {
            let ev = w.seal_next(None);
            mon.on_seal(w, &ev);
        }
    };
    let t = w.gen_newcustom().map(|t| (t, "newcustom".to_string()));
    script(&mut w, mon, t);
    w.profile.wrong_kind_permille = 0;
    w.profile.odd_spelling_permille = 0;
    if let Some(c) = w.customs.first().copied() {
        let key = melstructs::PoolKey::new(Denom::Mel, c);
        // deposit into the new pool
        for _ in 0..20 {
            if w.dead || w.my_pools.contains(&key) {
                break;
            }
            let t = w.gen_deposit().filter(|(t, _)| t.data == key.to_bytes());
            if t.is_some() {
                w.my_pools.push(key);
                script(&mut w, mon, t);
            }
        }
        // split off a zero-valued liquidity coin first, so that a zero-valued withdrawal can follow the full one
        w.profile.degenerate_permille = 0;
        for _ in 0..6 {
            if w.dead {
                break;
            }
            let liq = w.spendable().into_iter().find(|(_, c)| c.coin_data.denom == key.liq_token_denom() && c.coin_data.value.0 > 0);
            let mel = w.spendable().into_iter().find(|(_, c)| c.coin_data.denom == Denom::Mel && c.coin_data.value.0 < MAX_COINVAL);
            if let (Some(liq), Some(mel)) = (liq, mel) {
                let covhash = w.owners[0].addr_new;
                let payload = vec![melstructs::CoinData { covhash, value: melstructs::CoinValue(0), denom: key.liq_token_denom(), additional_data: Bytes::new() }];
                let t = w.complete(TxKind::Normal, vec![mel, liq], payload, vec![], 0).map(|t| (t, "degenerate:make-zero-liquidity-coin".to_string()));
                if t.is_some() {
                    script(&mut w, mon, t);
                    break;
                }
            }
        }
        // withdraw everything we hold of its liquidity token
        for _ in 0..20 {
            if w.dead {
                break;
            }
            let t = w.gen_withdraw().filter(|(t, _)| t.data == key.to_bytes());
            if t.is_some() {
                script(&mut w, mon, t);
            }
        }
        // zero-valued withdrawal against the (possibly empty) pool
        for _ in 0..4 {
            if w.dead {
                break;
            }
            let zero = w.spendable().into_iter().find(|(_, c)| c.coin_data.value.0 == 0 && c.coin_data.denom == key.liq_token_denom());
            let mel = w.spendable().into_iter().find(|(_, c)| c.coin_data.denom == Denom::Mel && c.coin_data.value.0 <= MAX_COINVAL);
            if let (Some(z), Some(m)) = (zero, mel) {
                let inputs = vec![m.clone(), z.clone()];
                let mut tx = Transaction {
                    kind: TxKind::LiqWithdraw,
                    inputs: inputs.iter().map(|x| x.0).collect(),
                    outputs: vec![melstructs::CoinData { covhash: w.owners[0].addr_new, value: melstructs::CoinValue(0), denom: key.liq_token_denom(), additional_data: Bytes::new() }],
                    fee: m.1.coin_data.value,
                    covenants: vec![],
                    data: key.to_bytes(),
                    sigs: vec![],
                };
                w.authorise(&mut tx, &inputs);
                mon.journal("C09 probe zero-valued withdrawal against emptied pool");
                script(&mut w, mon, Some((tx, "degenerate:zero-valued-withdrawal".into())));
            }
        }
        // swap against the (possibly empty) pool
        for _ in 0..30 {
            if w.dead {
                break;
            }
            let t = w.gen_swap().filter(|(t, _)| t.data == key.to_bytes());
            if t.is_some() {
                mon.journal("C09 probe swap against emptied pool");
                script(&mut w, mon, t);
            }
        }
    }
}

/// Chains that have lived long: the same rules have to hold millions of blocks after every activation height (the
/// subsidy has halved away, epochs are in the thousands, heights need more than 32 bits). A handful of ordinary blocks
/// at fabricated heights far in the future.
///
/// (The code under test keeps a per-process table with one 16-byte entry per block height for the ERG inflator, so a
/// state at height h costs h/64 MiB and h steps once per process. Random histories therefore stay below 23 million -
/// past the last halving that leaves a non-zero subsidy; one fixed probe in shard 0 crosses block 128 950 000, where the
/// subsidy's halving count reaches the width of its integer type, at a cost of 2 GiB in that one process.)
fn far_future_scenario(mon: &mut C09, case_seed: u64, r: &mut Rng, fixed: Option<(NetID, u64)>) {
    let net = fixed.map(|f| f.0).unwrap_or(*r.pick(&[NetID::Custom02, NetID::Custom08, NetID::Testnet, NetID::Mainnet]));
    let base = *r.pick(&[5_000_000u64, 9_949_990, 20_949_997, 21_949_998, 22_000_000]);
    let height = fixed.map(|f| f.1).unwrap_or(base + r.below(6));
    let mut w = World::fabricated(case_seed, net, height, *r.pick(&[0u128, 1000]), 1 << 40);
    mon.case_seed = case_seed;
    w.profile.hostile = 5;
    mon.rep.count("histories at heights far in the future");
    for b in 0..4 {
        if w.dead {
            break;
        }
        let (txs, labels) = w.gen_batch();
        if !txs.is_empty() {
            mon.journal(&format!("C09 far-future case={} height={} block={} labels={:?}", case_seed, height, b, labels));
            let ev = w.apply_batch(txs, labels);
            mon.on_batch(&w, &ev);
        }
        if w.dead {
            break;
        }
        mon.journal(&format!("C09 far-future case={} height={} block={} seal", case_seed, height, b));
        let action = w.gen_action();
        let ev = w.seal_next(action);
        mon.on_seal(&w, &ev);
    }
}

/// The two genesis configurations the crate ships (`std_mainnet`, and `std_testnet` parsed from the bundled YAML) are
/// realized, sealed, continued for a few blocks with and without a proposer action, re-applied as blocks, restarted with
/// `from_block` and offered an empty proof - every call under the monitor.
fn std_genesis_probe(mon: &mut C09) {
    for (name, make) in [("std_mainnet", melstf::GenesisConfig::std_mainnet as fn() -> melstf::GenesisConfig), ("std_testnet", melstf::GenesisConfig::std_testnet as fn() -> melstf::GenesisConfig)] {
        mon.journal(&format!("C09 probe genesis {}", name));
        mon.rep.eval();
        mon.rep.count("shipped genesis configurations realized and continued");
        let res = guarded(move || {
            let db = new_db();
            let cfg = make();
            let mut sealed = cfg.realize(&db).seal(None);
            let mut heights = vec![];
            for i in 0..4u8 {
                let action = if i % 2 == 1 { Some(melstructs::ProposerAction { fee_multiplier_delta: if i == 1 { 127 } else { -128 }, reward_dest: melstructs::Address(tmelcrypt::HashVal([i; 32])) }) } else { None };
                let next = sealed.next_unsealed().seal(action);
                let blk = next.to_block();
                let applied = sealed.apply_block(&blk).map(|s| s.header());
                assert_eq!(applied.ok(), Some(next.header()), "honest block on a shipped genesis refused or altered");
                let stakes = next.raw_stakes();
                let back = melstf::SealedState::from_block(&blk, &stakes, &db);
                assert_eq!(back.header(), next.header(), "from_block on a shipped genesis gives another header");
                let _ = next.confirm(Default::default());
                heights.push(next.header().height.0);
                sealed = next;
            }
            heights
        });
        if let Err(p) = res {
            mon.rep.violate(&format!("C09|panic:{}:{}|genesis+seal+apply_block+from_block|shipped-genesis:{}", p.origin, msg_class(&p.message), name), format!("a call on the shipped genesis configuration {} panicked: {}", name, p.message), json!({"genesis": name, "location": p.location}));
        }
    }
}

/// Coins locked by adversarial covenant programs, spent through apply_tx: the interpreter and the
/// weigher run inside validation, so whatever a program does there must end in accept or reject.
fn covenant_scenario(mon: &mut C09, case_seed: u64) {
    use crate::refvm::{self, Op};
    use melstructs::{BlockHeight, CoinData, CoinDataHeight, CoinID, CoinValue, TxHash};
    let mut r = Rng::new(case_seed ^ 0xc0de);
    let pushi = |n: u128| {
        let mut a = [0u8; 32];
        a[16..].copy_from_slice(&n.to_be_bytes());
        Op::PushI(a)
    };
    let net = *r.pick(&[NetID::Custom02, NetID::Custom08, NetID::Mainnet]);
    let height = 1_100_000 + r.below(100);
    let mut fab = Fab::new(net, height);
    let mut progs: Vec<(String, Vec<u8>)> = vec![];
    for k in 0..6 {
        let (name, ops): (&str, Vec<Op>) = match r.below(10) {
            0 => {
                // byte-string doubling (kept below 2^62 elements) followed by a consumer
                let rounds = 1 + r.usize(60);
                let mut v = vec![Op::PushB(vec![7u8; 1 + r.usize(32)])];
                for _ in 0..rounds {
                    v.push(Op::Dup);
                    v.push(Op::BAppend);
                }
                v.push(r.pick(&[Op::BLength, Op::Hash(65535), Op::BtoI, Op::TypeQ, Op::Dup, Op::Bez(0)]).clone());
                ("doubling", v)
            }
            1 => {
                let depth = 1 + r.usize(12);
                let mut v = vec![];
                for d in 0..depth {
                    v.push(Op::Loop(*r.pick(&[0u16, 1, 2, 3]), (depth - d) as u16));
                }
                v.push(Op::Noop);
                ("nested-loops", v)
            }
            2 => ("random-bytes", vec![]),
            3 => {
                let v: Vec<Op> = (0..1 + r.usize(40)).map(|_| crate::mon::c12::random_op(&mut r, false)).collect();
                ("random-ops", v)
            }
            4 => ("vector-doubling", {
                let rounds = 1 + r.usize(60);
                let mut v = vec![Op::VEmpty, pushi(1), Op::VCons];
                for _ in 0..rounds {
                    v.push(Op::Dup);
                    v.push(Op::VAppend);
                }
                v.push(r.pick(&[Op::VLength, Op::TypeQ, Op::Dup]).clone());
                v
            }),
            5 => ("deep-env-access", vec![pushi(r.below(300) as u128), pushi(r.below(12) as u128), Op::LoadImm(r.below(12) as u16), Op::VRef, Op::VRef]),
            8 | 9 => {
                // slices, references and updates at, inside and beyond the ends of a short vector / byte string,
                // with the two indexes in either order
                let len = r.usize(5);
                let vector = r.chance(1, 2);
                let mut v = vec![];
                if vector {
                    v.push(Op::VEmpty);
                    for i in 0..len {
                        v.push(pushi(i as u128));
                        v.push(Op::VCons);
                    }
                } else {
                    v.push(Op::PushB(vec![7u8; len]));
                }
                v.push(Op::StoreImm(50));
                let a = r.below(len as u64 + 3) as u128;
                let b = r.below(len as u64 + 3) as u128;
                let big = *r.pick(&[0u128, 1, u64::MAX as u128, u128::MAX]);
                match r.below(4) {
                    0 => v.extend([pushi(a), pushi(b), Op::LoadImm(50), if vector { Op::VSlice } else { Op::BSlice }]),
                    1 => v.extend([pushi(a.max(big)), Op::LoadImm(50), if vector { Op::VRef } else { Op::BRef }]),
                    2 => v.extend([pushi(9), pushi(a), Op::LoadImm(50), if vector { Op::VSet } else { Op::BSet }]),
                    _ => v.extend([pushi(big), pushi(b), Op::LoadImm(50), if vector { Op::VSlice } else { Op::BSlice }]),
                }
                ("index-boundaries", v)
            }
            6 => ("exp-and-shift", vec![pushi(r.u128()), pushi(r.u128()), Op::Exp(r.next() as u8), pushi(r.below(300) as u128), Op::Shl, Op::ItoB, Op::BtoI]),
            _ => ("always-true", vec![pushi(1)]),
        };
        let bytes = if name == "random-bytes" { r.bytes(1 + r.clone().usize(60)) } else { refvm::encode(&ops).unwrap_or_default() };
        let id = CoinID { txhash: TxHash(tmelcrypt::hash_keyed(b"c09cov", (case_seed ^ k).to_be_bytes())), index: 0 };
        fab.coins.push((id, CoinDataHeight { coin_data: CoinData { covhash: addr_of(&bytes), value: CoinValue(1 << 40), denom: Denom::Mel, additional_data: Bytes::from(r.bytes(r.clone().usize(8))) }, height: BlockHeight(height - 1) }));
        progs.push((name.to_string(), bytes));
    }
    let db = new_db();
    let sealed = fab.build(&db);
    let st = sealed.next_unsealed();
    // spend 1-3 of them in one transaction
    for _ in 0..4 {
        let n = 1 + r.usize(3);
        let mut idx: Vec<usize> = (0..progs.len()).collect();
        r.shuffle(&mut idx);
        idx.truncate(n);
        let inputs: Vec<CoinID> = idx.iter().map(|i| fab.coins[*i].0).collect();
        let total: u128 = (1u128 << 40) * n as u128;
        let tx = Transaction {
            kind: TxKind::Normal,
            inputs,
            outputs: vec![melstructs::CoinData { covhash: destroy_addr(), value: melstructs::CoinValue(total), denom: Denom::Mel, additional_data: Bytes::new() }],
            fee: melstructs::CoinValue(0),
            covenants: idx.iter().map(|i| Bytes::from(progs[*i].1.clone())).collect(),
            data: Bytes::from(r.bytes(r.clone().usize(40))),
            sigs: vec![Bytes::from(r.bytes(64))],
        };
        let mut tx = tx;
        let mut names: Vec<String> = idx.iter().map(|i| progs[*i].0.clone()).collect();
        if r.chance(1, 4) {
            // an extra covenant that no input needs (so it is weighed, never run): nested loops whose weight is beyond
            // 128 bits - the weigher saturates, and the sum over the listed covenants must not wrap or trap
            let k = 9 + r.usize(4);
            let mut v = vec![];
            for i in 0..k {
                v.push(Op::Loop(65535, (k - i) as u16));
            }
            v.push(Op::Noop);
            tx.covenants.push(Bytes::from(refvm::encode(&v).unwrap()));
            names.push("listed-only:weight-beyond-128-bits".into());
        }
        mon.journal(&format!("C09 case={} covenant-spend programs={:?}", case_seed, names));
        mon.rep.eval();
        mon.rep.count("apply_tx calls spending adversarial covenants");
        mon.rep.nontrivial(fnv(&tx.hash_nosigs().0 .0));
        let mut s2 = st.clone();
        let t2 = tx.clone();
        if let Err(p) = guarded(move || s2.apply_tx(&t2).is_ok()) {
            if is_debug_only_dependency_overflow(&p) {
                mon.rep.count(&format!("excluded: overflow trap inside dependency '{}' present only with overflow checks", p.origin));
            } else {
                let sig = format!("C09|panic:{}:{}|apply_tx|covenant:{}", p.origin, msg_class(&p.message), names.join("+"));
                mon.rep.violate(&sig, format!("apply_tx panicked while validating covenants {:?}: {} at {}", names, p.message, site(&p.location)), json!({"case_seed": case_seed, "tx_hex": tx_hex(&tx), "programs_hex": idx.iter().map(|i| hex::encode(&progs[*i].1)).collect::<Vec<_>>()}));
            }
        }
    }
}

/// Transactions at and beyond the sizes at which one-byte indexes run out: 255/256/257 and more inputs of
/// existing coins, 255/256 outputs, hundreds of covenants and signature slots.
fn boundary_size_scenario(mon: &mut C09, case_seed: u64) {
    use melstructs::{BlockHeight, CoinData, CoinDataHeight, CoinID, CoinValue, TxHash};
    let mut r = Rng::new(case_seed ^ 0xb16);
    let net = *r.pick(&[NetID::Custom02, NetID::Custom08, NetID::Mainnet, NetID::Testnet]);
    let height = 1_100_000 + r.below(100);
    let mut fab = Fab::new(net, height);
    fab.fee_multiplier = 0;
    let at = always_true_cov();
    let n_coins = *r.pick(&[256usize, 257, 258, 300, 511, 513, 700]);
    for i in 0..n_coins {
        let id = CoinID { txhash: TxHash(tmelcrypt::hash_keyed(b"c09big", (case_seed ^ (i as u64 / 200)).to_be_bytes())), index: (i % 200) as u8 };
        fab.coins.push((id, CoinDataHeight { coin_data: CoinData { covhash: addr_of(&at), value: CoinValue(1000), denom: Denom::Mel, additional_data: Bytes::new() }, height: BlockHeight(height - 1) }));
    }
    let db = new_db();
    let sealed = fab.build(&db);
    let st = sealed.next_unsealed();
    for n_in in [255usize, 256, 257, n_coins] {
        if n_in > n_coins {
            continue;
        }
        let n_out = *r.pick(&[1usize, 1, 2, 255, 256]);
        let total = 1000u128 * n_in as u128;
        let mut outputs = vec![CoinData { covhash: destroy_addr(), value: CoinValue(total - (n_out as u128 - 1)), denom: Denom::Mel, additional_data: Bytes::new() }];
        for _ in 1..n_out {
            outputs.push(CoinData { covhash: addr_of(&at), value: CoinValue(1), denom: Denom::Mel, additional_data: Bytes::new() });
        }
        let n_cov = *r.pick(&[1usize, 1, 256, 300]);
        let n_sig = *r.pick(&[0usize, 1, 256, 300]);
        let tx = Transaction {
            kind: TxKind::Normal,
            inputs: fab.coins[..n_in].iter().map(|c| c.0).collect(),
            outputs,
            fee: CoinValue(0),
            covenants: (0..n_cov).map(|_| Bytes::from(at.clone())).collect(),
            data: Bytes::new(),
            sigs: (0..n_sig).map(|_| Bytes::from(vec![0u8; 64])).collect(),
        };
        mon.journal(&format!("C09 case={} boundary-size inputs={} outputs={} covenants={} sigs={}", case_seed, n_in, n_out, n_cov, n_sig));
        mon.rep.eval();
        mon.rep.count("apply_tx calls with 255 or more inputs");
        mon.rep.nontrivial(fnv(&tx.hash_nosigs().0 .0));
        let mut s2 = st.clone();
        let t2 = tx.clone();
        match guarded(move || s2.apply_tx(&t2).map(|_| s2.seal(None).header())) {
            Ok(Ok(_)) => mon.rep.count(&format!("boundary-size transactions accepted and sealed: {} inputs", if n_in <= 255 { "255" } else if n_in == 256 { "256" } else { ">=257" })),
            Ok(Err(_)) => mon.rep.count("boundary-size transactions rejected"),
            Err(p) => {
                if is_debug_only_dependency_overflow(&p) {
                    mon.rep.count(&format!("excluded: overflow trap inside dependency '{}' present only with overflow checks", p.origin));
                } else {
                    let cls = format!("inputs{}", if n_in <= 255 { "<=255" } else if n_in == 256 { "=256" } else { ">=257" });
                    let sig = format!("C09|panic:{}:{}|apply_tx|boundary-size:{}", p.origin, msg_class(&p.message), cls);
                    mon.rep.violate(&sig, format!("apply_tx/seal panicked on a transaction with {} inputs, {} outputs, {} covenants, {} signatures: {} at {}", n_in, n_out, n_cov, n_sig, p.message, site(&p.location)), json!({"case_seed": case_seed, "inputs": n_in, "outputs": n_out, "covenants": n_cov, "sigs": n_sig, "net": format!("{:?}", net), "height": height + 1}));
                }
            }
        }
    }
}

/// Stack-depth probes: a covenant whose execution, weighing or teardown might recurse once per level of some
/// structure it builds, run directly (`exec`) or as the covenant of a spent coin through `apply_tx` (`apply`) on
/// the calling thread (the caller chooses its stack size; covenants of a transaction run on rayon workers).
/// Families: `vpush-nest` / `vcons-nest` (a vector nested `size` deep), `loop-nest` (`size` nested loops).
pub fn probe_stack(family: &str, size: u16, mode: &str) -> String {
    use crate::refvm::{self, Op};
    use melstructs::{BlockHeight, CoinData, CoinDataHeight, CoinID, CoinValue, TxHash};
    let ops: Vec<Op> = match family {
        "vpush-nest" => vec![Op::VEmpty, Op::Loop(size, 2), Op::Dup, Op::VPush],
        "vcons-nest" => vec![Op::VEmpty, Op::Loop(size, 2), Op::Dup, Op::VCons],
        "loop-nest" => {
            let mut v = vec![];
            for i in 0..size {
                v.push(Op::Loop(1, size - i));
            }
            v.push(Op::Noop);
            v
        }
        _ => vec![Op::Noop],
    };
    let bytes = refvm::encode(&ops).unwrap();
    let cov = melvm::Covenant::from_bytes(&bytes).unwrap();
    if mode == "exec" {
        let w = cov.weight();
        let r = cov.debug_execute(&[]);
        return format!("executed: code {} bytes, weight {}, result is_some={}", bytes.len(), w, r.is_some());
    }
    let mut fab = Fab::new(NetID::Custom02, 1000);
    fab.fee_multiplier = 0;
    let id = CoinID { txhash: TxHash(tmelcrypt::hash_single(b"nest")), index: 0 };
    fab.coins.push((id, CoinDataHeight { coin_data: CoinData { covhash: addr_of(&bytes), value: CoinValue(1000), denom: Denom::Mel, additional_data: Bytes::new() }, height: BlockHeight(999) }));
    let db = new_db();
    let mut st = fab.build(&db).next_unsealed();
    let n = bytes.len();
    let tx = Transaction { kind: TxKind::Normal, inputs: vec![id], outputs: vec![CoinData { covhash: destroy_addr(), value: CoinValue(1000), denom: Denom::Mel, additional_data: Bytes::new() }], fee: CoinValue(0), covenants: vec![Bytes::from(bytes)], data: Bytes::new(), sigs: vec![] };
    format!("apply_tx: code {} bytes, accepted={:?}", n, st.apply_tx(&tx).is_ok())
}

pub fn run(p: &Params) -> Report {
    let total = p.n(2400, 60000);
    let mine = p.share(total);
    let mut rng = Rng::new(p.shard_seed() ^ 0xC09);
    let journal = p.journal.as_ref().and_then(|j| std::fs::File::create(j).ok());
    let mut mon = C09 { rep: Report::new("C09"), case_seed: 0, journal };
    mon.rep.rule = "cases = API calls (apply_tx_batch, seal, next_unsealed, apply_block, confirm, from_block+header) on random histories over all network classes and fabricated heights with: one hostile mutation per batch (16 field-level mutators + byte-level mutation of the serialization that still deserializes), degenerate requests (zero-valued swaps/deposits/withdrawals, empty/garbage/partial MelPoW proofs at difficulties 0..2^32, undecodable stake documents, faucet-minted liquidity tokens, maximal values), every proposer delta class, multipliers 0..2^40; coins locked by adversarial covenant programs (self-append doubling up to 2^60 elements, nested loops, random bytes/instructions, environment digging, slices/references/updates at, inside and beyond the ends with indexes in either order) spent through apply_tx, sometimes next to a listed-only covenant whose weight is beyond 128 bits; histories in which a user creates (and empties) the ERG/SYM pool before the rules enable the built-in one; histories at heights 5 to 22 million (the subsidy halving away) and one across block 128 950 000 (the 128th halving); transactions with 255/256/257/up to 700 inputs of existing coins, 255/256 outputs and hundreds of covenants and signature slots; every call runs under catch_unwind with a panic hook that records message, location and originating crate; each shard is its own process with a journal so an abort is attributed. Supply per denomination is kept below 2^127 by construction. Non-trivial = batch with a hostile or degenerate member; distinct by member hashes".into();
    if p.shard == 0 && p.only_case.is_none() {
        probes(&mut mon);
        std_genesis_probe(&mut mon);
        let mut r = Rng::new(0xfa7);
        far_future_scenario(&mut mon, 7300, &mut r, Some((NetID::Custom02, 128_949_997)));
    }
    for _ in 0..mine {
        let case_seed = rng.next();
        if let Some(only) = p.only_case {
            if only != case_seed {
                continue;
            }
        }
        mon.case_seed = case_seed;
        let mut r = Rng::new(case_seed ^ 9);
        scenario_history(&mut mon, case_seed, &mut r);
        covenant_scenario(&mut mon, case_seed);
        if case_seed % 8 == 0 {
            boundary_size_scenario(&mut mon, case_seed);
        }
        if case_seed % 8 == 2 {
            let mut r = Rng::new(case_seed ^ 0xfa7);
            far_future_scenario(&mut mon, case_seed, &mut r, None);
        }
        if case_seed % 8 == 1 {
            // a user-created pool under the name of a built-in pool that is not enabled yet, across the activation
            let mut r = Rng::new(case_seed ^ 0x5c);
            let (net, act) = if r.chance(1, 2) { (NetID::Testnet, 500u64) } else { (NetID::Mainnet, 180_000u64) };
            let scripted = 3 + r.usize(3);
            let start = act - 1 - scripted as u64 + r.below(3);
            let mut w = World::fabricated(case_seed, net, start, 0, 1 << 30);
            let withdraw_in = match r.below(3) {
                0 => None,
                _ => Some(1 + r.usize(scripted - 1)),
            };
            mon.journal(&format!("C09 case={} user-created ERG/SYM pool before activation net={:?} start={} withdraw_in={:?}", case_seed, net, start, withdraw_in));
            mon.rep.count("histories with a user-created ERG/SYM pool before its activation");
            squat_history(&mut w, withdraw_in, scripted, 3, &mut [&mut mon]);
        }
    }
    if p.only_case.is_none() {
        mon.rep.require("apply_tx_batch calls", p.n(1500, 30000));
        mon.rep.require("seal calls", p.n(1500, 30000));
        mon.rep.require("apply_tx calls with 255 or more inputs", p.n(100, 2000));
        mon.rep.require("histories at heights far in the future", p.n(100, 2000));
    }
    mon.rep
}
