//! C19 - faucets: never on mainnet, and at most once anywhere.
use std::collections::HashSet;

use bytes::Bytes;
use melstf::SealedState;
use melstructs::{Address, Block, BlockHeight, CoinData, CoinDataHeight, CoinID, CoinValue, Denom, NetID, Transaction, TxHash, TxKind};
use novasmt::Database;
use serde_json::json;
use stdcode::StdcodeSerializeExt;
use tip911_stakeset::StakeSet;
use tmelcrypt::HashVal;

use crate::gen::*;
use crate::guard::guarded;
use crate::report::Report;
use crate::rng::{fnv, Rng};
use crate::world::*;
use crate::Params;

pub fn grandfathered_tx() -> Transaction {
    // the historical mainnet faucet, block 1214212
    let covhash: Address = "t3ew4xh2yts8j1a8vzdfpbkzzvb5gz3sn7s9jw7qc9djrph2wpg52g".parse().unwrap();
    Transaction {
        kind: TxKind::Faucet,
        inputs: vec![],
        outputs: vec![CoinData { value: CoinValue::from_millions(1001u64), denom: Denom::Mel, covhash, additional_data: Bytes::new() }],
        data: Bytes::from(hex::decode("202fb0573b6dfe780f249bec6069bb39dbccb7ed9536c0480e20e1e29050f430").unwrap()),
        fee: CoinValue::from_millions(1001u64),
        covenants: vec![],
        sigs: vec![],
    }
}

fn faucet_shape(w: &mut World, r: &mut Rng) -> Transaction {
    let n_out = *r.pick(&[0usize, 1, 1, 2, 5, 40, 255]);
    let outs = (0..n_out)
        .map(|i| {
            let denom = match (i + r.usize(5)) % 5 {
                0 => Denom::Mel,
                1 => Denom::Sym,
                2 => Denom::Erg,
                3 => Denom::NewCustom,
                _ => Denom::Custom(TxHash(HashVal(r.arr32()))),
            };
            CoinData { covhash: w.owners[i % 4].addr_new, value: CoinValue(r.loguniform(100)), denom, additional_data: Bytes::from(r.bytes(r.clone().usize(5))) }
        })
        .collect();
    let mut tx = Transaction {
        kind: TxKind::Faucet,
        inputs: vec![],
        outputs: outs,
        fee: CoinValue(1u128 << 100),
        covenants: if r.chance(1, 5) { vec![Bytes::from(r.bytes(5))] } else { vec![] },
        data: Bytes::from(r.bytes(r.clone().usize(30))),
        sigs: vec![],
    };
    // a faucet may also carry (properly authorised) inputs; it is a faucet all the same
    if r.chance(1, 4) {
        let sp = w.spendable();
        if !sp.is_empty() {
            let n = 1 + r.usize(2.min(sp.len()));
            let inputs: Vec<_> = (0..n).map(|i| sp[(i * 7 + r.usize(sp.len())) % sp.len()].clone()).collect();
            let mut seen = HashSet::new();
            let inputs: Vec<_> = inputs.into_iter().filter(|(id, _)| seen.insert(*id)).collect();
            tx.inputs = inputs.iter().map(|x| x.0).collect();
            w.authorise(&mut tx, &inputs);
        }
    }
    tx
}

struct Lineage {
    accepted: HashSet<TxHash>,
}

pub fn run(p: &Params) -> Report {
    let mut rep = Report::new("C19");
    rep.rule = "cases = faucet applications: on each of the 9 network ids a history of up to 30 blocks in which faucet transactions of many shapes (0-255 outputs, all denominations, data, with and without authorised inputs, the grandfathered mainnet transaction on every network) are applied and then replayed in the same batch, in a later batch of the same block, 1-30 blocks later, with a different sigs field, inside a batch among other transactions, in one batch with the grandfathered transaction, and after a restart through from_block (copied store). Oracle: on mainnet only the grandfathered hash may be accepted; elsewhere each hash_nosigs is accepted at most once per lineage. Ordinary payments name an accepted faucet's duplicate marker among their inputs before the replay. Non-trivial = every replay attempt; distinct by (network, hash, replay point)".into();
    let total = p.n(540, 12000);
    let mine = p.share(total);
    let mut rng = Rng::new(p.shard_seed() ^ 0xC19);
    for case in 0..mine {
        let case_seed = rng.next();
        if let Some(only) = p.only_case {
            if only != case_seed {
                continue;
            }
        }
        let mut r = Rng::new(case_seed);
        let net = ALL_NETS[(case % 9) as usize];
        let height = match net {
            NetID::Mainnet => *r.pick(&[1_214_212u64, 1_300_000, 10]),
            NetID::Testnet => *r.pick(&[1_000_000u64, 10, 497]),
            _ => *r.pick(&[1u64, 50, 199_990]),
        };
        let mut w = World::fabricated(case_seed, net, height, 0, 0);
        w.profile.hostile = 0;
        w.profile.faucet = 0;
        let mut lin = Lineage { accepted: HashSet::new() };
        let mut pool: Vec<Transaction> = vec![];
        if r.chance(1, 2) {
            pool.push(grandfathered_tx());
        }
        let blocks = 4 + r.usize(27);
        let attempt = |w: &mut World, lin: &mut Lineage, rep: &mut Report, txs: Vec<Transaction>, point: &str, case_seed: u64| {
            rep.eval();
            let hashes: Vec<TxHash> = txs.iter().map(|t| t.hash_nosigs()).collect();
            let faucets: Vec<&Transaction> = txs.iter().filter(|t| t.kind == TxKind::Faucet).collect();
            let labels = txs.iter().map(|t| format!("{}", t.kind)).collect();
            let ev = w.apply_batch(txs.clone(), labels);
            let accepted = ev.accepted();
            let mut fp = vec![w.net as u8];
            for h in &hashes {
                fp.extend_from_slice(&h.0 .0);
            }
            fp.extend_from_slice(point.as_bytes());
            rep.nontrivial(fnv(&fp));
            rep.count(&format!("attempts: {} -> {}", point, if accepted { "accepted" } else { "rejected" }));
            if txs.iter().any(|t| t.kind == TxKind::Faucet && !t.inputs.is_empty()) {
                rep.count(&format!("attempts with a faucet that carries inputs ({})", if w.net == NetID::Mainnet { "mainnet" } else { "other networks" }));
            }
            let wit = json!({"case_seed": case_seed, "origin": w.origin, "network": format!("{:?}", w.net), "replay_point": point, "height": ev.pre.snap.height.0, "txs_hex": txs.iter().map(tx_hex).collect::<Vec<_>>(), "result": format!("{:?}", ev.result.as_ref().map_err(|p| p.message.clone()))});
            if accepted {
                let mut seen_in_batch: HashSet<TxHash> = HashSet::new();
                for f in faucets {
                    let h = f.hash_nosigs();
                    let grand = hex::encode(h.0 .0) == GRANDFATHERED_FAUCET;
                    if w.net == NetID::Mainnet {
                        if !grand {
                            rep.violate(&format!("C19|mainnet-faucet-accepted|apply_tx_batch|{}", point), "a faucet transaction other than the grandfathered one was accepted on mainnet".into(), wit.clone());
                        }
                        continue;
                    }
                    let dup = lin.accepted.contains(&h) || !seen_in_batch.insert(h);
                    if dup {
                        let cls = if grand { "grandfathered-hash-off-mainnet" } else { "ordinary-faucet" };
                        rep.violate(&format!("C19|faucet-accepted-twice|apply_tx_batch|{},{}", cls, point), format!("a faucet transaction was accepted a second time ({})", point), wit.clone());
                    }
                }
                for t in &txs {
                    if t.kind == TxKind::Faucet {
                        lin.accepted.insert(t.hash_nosigs());
                    }
                }
            }
            accepted
        };
        for b in 0..blocks {
            if w.dead {
                break;
            }
            // a new faucet
            if r.chance(2, 3) {
                let f = faucet_shape(&mut w, &mut r);
                pool.push(f.clone());
                match r.below(4) {
                    0 => {
                        // the same transaction twice in one batch
                        attempt(&mut w, &mut lin, &mut rep, vec![f.clone(), f.clone()], "same-batch", case_seed);
                    }
                    1 => {
                        // same hash, different sigs, in one batch
                        let mut g = f.clone();
                        g.sigs.push(Bytes::from_static(b"malleated"));
                        attempt(&mut w, &mut lin, &mut rep, vec![f.clone(), g], "same-batch-different-sigs", case_seed);
                    }
                    _ => {
                        attempt(&mut w, &mut lin, &mut rep, vec![f.clone()], "first-application", case_seed);
                    }
                }
                if w.dead {
                    break;
                }
                if r.chance(1, 2) {
                    attempt(&mut w, &mut lin, &mut rep, vec![f.clone()], "same-block-later-batch", case_seed);
                }
            }
            if w.dead {
                break;
            }
            // a fresh faucet travelling in one batch with the grandfathered transaction (either order): the exemption is for
            // that one transaction, not for its company
            if r.chance(1, if net == NetID::Mainnet { 2 } else { 8 }) {
                let f = faucet_shape(&mut w, &mut r);
                let batch = if r.chance(1, 2) { vec![grandfathered_tx(), f.clone()] } else { vec![f.clone(), grandfathered_tx()] };
                pool.push(f);
                attempt(&mut w, &mut lin, &mut rep, batch, "same-batch-as-the-grandfathered-transaction", case_seed);
                if w.dead {
                    break;
                }
            }
            // an ordinary payment that names an accepted faucet's duplicate marker among its inputs (the marker is a
            // zero-valued pseudo-coin under the all-zero covenant hash), then the faucet again
            if !pool.is_empty() && net != NetID::Mainnet && r.chance(1, 3) {
                let old = pool[r.usize(pool.len())].clone();
                let marker = CoinID { txhash: TxHash(tmelcrypt::hash_keyed(b"fdp", old.hash_nosigs().0 .0)), index: 0 };
                let marker_data = CoinDataHeight { coin_data: CoinData { covhash: Address(tmelcrypt::HashVal::default()), value: CoinValue(0), denom: Denom::Mel, additional_data: Bytes::new() }, height: BlockHeight(w.height()) };
                let mut inputs = w.pick_inputs(&[Denom::Mel], 0);
                if !inputs.is_empty() {
                    inputs.push((marker, marker_data));
                    if let Some(sweeper) = w.complete(TxKind::Normal, inputs, vec![], vec![], 0) {
                        rep.count("payments naming a faucet's duplicate marker as an input");
                        let ev = w.apply_batch(vec![sweeper], vec!["marker-sweeper".into()]);
                        if ev.accepted() {
                            rep.count("payments naming a faucet's duplicate marker as an input: accepted (C04's business)");
                        }
                        if !w.dead {
                            attempt(&mut w, &mut lin, &mut rep, vec![old.clone()], "after-a-payment-named-its-marker", case_seed);
                        }
                    }
                }
            }
            if w.dead {
                break;
            }
            // replay something old
            if !pool.is_empty() && r.chance(3, 4) {
                let old = pool[r.usize(pool.len())].clone();
                match r.below(4) {
                    0 => {
                        let mut g = old.clone();
                        g.sigs.push(Bytes::from(r.bytes(3)));
                        attempt(&mut w, &mut lin, &mut rep, vec![g], "later-block-different-sigs", case_seed);
                    }
                    1 => {
                        // among other transactions
                        let mut batch = vec![];
                        if let Some(t) = w.gen_normal() {
                            batch.push(t);
                        }
                        batch.push(old.clone());
                        attempt(&mut w, &mut lin, &mut rep, batch, "later-block-inside-batch", case_seed);
                    }
                    _ => {
                        attempt(&mut w, &mut lin, &mut rep, vec![old.clone()], "later-block", case_seed);
                    }
                }
            }
            if w.dead {
                break;
            }
            if r.chance(1, 3) {
                let (txs, labels) = w.gen_batch();
                if !txs.is_empty() {
                    w.apply_batch(txs, labels);
                }
            }
            if w.dead {
                break;
            }
            let action = w.gen_action();
            w.seal_next(action);
            if w.dead {
                break;
            }
            // restart: continue on a lineage rebuilt from the block and a copied store
            if b % 5 == 4 {
                if let Some(tip) = w.tip.clone() {
                    let blk: Block = stdcode::deserialize(&tip.to_block().stdcode()).unwrap();
                    let stakes = StakeSet::new(tip.raw_stakes().iter().map(|(k, v)| (*k, *v)));
                    let db2: Db = Database::new(w.db.storage().deep_copy());
                    if let Ok(restored) = guarded(|| SealedState::from_block(&blk, &stakes, &db2)) {
                        w.db = db2;
                        w.cur = restored.next_unsealed();
                        w.tip = Some(restored);
                        w.refresh();
                        rep.count("restarts");
                        if !pool.is_empty() {
                            let old = pool[r.usize(pool.len())].clone();
                            attempt(&mut w, &mut lin, &mut rep, vec![old], "after-restart", case_seed);
                        }
                    }
                }
            }
        }
        if rep.samples.len() < 3 && !lin.accepted.is_empty() {
            rep.sample(json!({"network": format!("{:?}", net), "start_height": height, "blocks": blocks, "distinct_faucets_accepted": lin.accepted.len(), "faucets_in_pool": pool.len()}));
        }
    }
    if p.only_case.is_none() {
        rep.require("attempts: later-block -> rejected", p.n(200, 4000));
        rep.require("attempts: first-application -> accepted", p.n(100, 2000));
    }
    rep
}
