//! C14 - a state is confirmed only by valid signatures from a > 2/3 stake majority.
use std::collections::BTreeMap;

use bytes::Bytes;
use melstructs::{CoinValue, NetID, StakeDoc, TxHash};
use serde_json::json;
use tmelcrypt::Ed25519PK;

use crate::guard::guarded;
use crate::report::Report;
use crate::rng::{fnv, Rng};
use crate::world::*;
use crate::Params;

struct Setup {
    sealed: Sealed,
    keys: Vec<Key>,
    /// active voting power per key in the state's epoch
    power: Vec<u128>,
    total: u128,
    desc: String,
}

fn setup(seed: u64, weights: &[u128], height: u64, extra_inactive: bool, split: bool) -> Setup {
    let db = new_db();
    let epoch = height / STAKE_EPOCH;
    let keys: Vec<Key> = (0..weights.len()).map(|i| key_n(seed, 100 + i as u64)).collect();
    let mut fab = Fab::new(NetID::Custom02, height);
    let mut n = 0u64;
    let mut push = |fab: &mut Fab, pk: Ed25519PK, s: u64, e: u64, v: u128| {
        n += 1;
        fab.stakes.push((
            TxHash(tmelcrypt::hash_keyed(b"stake", n.to_be_bytes())),
            StakeDoc { pubkey: pk, e_start: s, e_post_end: e, syms_staked: CoinValue(v) },
        ));
    };
    for (i, w) in weights.iter().enumerate() {
        if split && *w >= 2 {
            // the same key holds two stakes that sum to its weight
            push(&mut fab, keys[i].pk, epoch, epoch + 1, 1);
            push(&mut fab, keys[i].pk, epoch.saturating_sub(1), epoch + 3, *w - 1);
        } else {
            push(&mut fab, keys[i].pk, epoch, epoch + 2, *w);
        }
        if extra_inactive {
            // stakes of the same key that are not active in this epoch must not count
            push(&mut fab, keys[i].pk, epoch + 1, epoch + 5, 1000);
            if epoch > 0 {
                push(&mut fab, keys[i].pk, 0, epoch, 777);
            }
        }
    }
    let sealed = fab.build(&db);
    let total = weights.iter().sum();
    Setup {
        sealed,
        keys,
        power: weights.to_vec(),
        total,
        desc: format!("weights={:?} height={} inactive_stakes={} split={}", weights, height, extra_inactive, split),
    }
}

fn confirm(s: &Setup, proof: BTreeMap<Ed25519PK, Bytes>) -> Result<bool, String> {
    let st = s.sealed.clone();
    guarded(move || st.confirm(proof).is_some()).map_err(|p| p.message)
}

fn big3(x: u128) -> num::BigUint {
    num::BigUint::from(x) * 3u32
}
fn big2(x: u128) -> num::BigUint {
    num::BigUint::from(x) * 2u32
}

fn check_subsets(rep: &mut Report, s: &Setup) {
    let n = s.keys.len();
    let hh = s.sealed.header().hash();
    let sigs: Vec<Bytes> = s.keys.iter().map(|k| Bytes::from(k.sk.sign(&hh.0))).collect();
    let mut outcome = vec![false; 1 << n];
    for mask in 0..(1usize << n) {
        rep.eval();
        let mut proof = BTreeMap::new();
        let mut present = 0u128;
        for i in 0..n {
            if mask & (1 << i) != 0 {
                proof.insert(s.keys[i].pk, sigs[i].clone());
                present += s.power[i];
            }
        }
        let got = match confirm(s, proof) {
            Ok(g) => g,
            Err(m) => {
                rep.violate("C14|confirm-panics|SealedState::confirm|valid-signatures", format!("confirm panicked: {}", m), json!({"setup": s.desc, "signers_mask": mask}));
                continue;
            }
        };
        outcome[mask] = got;
        rep.nontrivial(fnv(format!("{}|{}", s.desc, mask).as_bytes()));
        let wit = json!({"setup": s.desc, "signers_mask": format!("{:b}", mask), "present": present.to_string(), "total": s.total.to_string(), "confirmed": got});
        if big3(present) > big2(s.total) {
            rep.count("subsets above 2/3");
            if !got {
                let cls = if mask == (1 << n) - 1 { "all-stakers-sign" } else { "present*3>total*2" };
                rep.violate(&format!("C14|majority-does-not-confirm|SealedState::confirm|{}", cls), "valid signatures from more than two thirds of the active voting power do not confirm".into(), wit);
            }
        } else if big3(present) < big2(s.total) {
            rep.count("subsets below 2/3");
            if got {
                let cls = if mask == 0 { "empty-proof" } else { "present*3<total*2" };
                rep.violate(&format!("C14|minority-confirms|SealedState::confirm|{}", cls), "signers holding less than two thirds of the active voting power confirm the state".into(), wit);
            }
        } else {
            rep.count("subsets exactly at 2/3 (either answer allowed)");
        }
    }
    // what a confirming call hands back is this state and this proof
    {
        let full: BTreeMap<Ed25519PK, Bytes> = (0..n).map(|i| (s.keys[i].pk, sigs[i].clone())).collect();
        let st = s.sealed.clone();
        let want_hdr = st.header();
        let pf = full.clone();
        rep.eval();
        if let Ok(Some((hdr, proof_back))) = guarded(move || st.confirm(pf).map(|cs| (cs.inner().header(), cs.cproof().clone()))) {
            rep.count("confirmed states inspected");
            if hdr != want_hdr || proof_back != full {
                rep.violate("C14|confirmed-state-is-another|SealedState::confirm|all-stakers-sign", "the confirmed state returned does not wrap the state that was confirmed, or not the proof that confirmed it".into(), json!({"setup": s.desc}));
            }
        }
    }
    // the same proofs padded with VALID signatures of keys that hold no voting power (1, n+1 and 4n+1 of them, so that
    // the proof has more entries than there are stakers, stakes, or both): the signers' power is what counts, and
    // adding valid signatures never un-confirms
    let bystanders: Vec<_> = (0..(4 * n + 1)).map(|i| key_n(7000 + i as u64, 1)).collect();
    let bsigs: Vec<Bytes> = bystanders.iter().map(|k| Bytes::from(k.sk.sign(&hh.0))).collect();
    for mask in 0..(1usize << n) {
        if n > 4 && mask % 5 != 0 && mask != (1 << n) - 1 {
            continue;
        }
        for pad in [1usize, n + 1, 4 * n + 1] {
            rep.eval();
            let mut proof = BTreeMap::new();
            let mut present = 0u128;
            for i in 0..n {
                if mask & (1 << i) != 0 {
                    proof.insert(s.keys[i].pk, sigs[i].clone());
                    present += s.power[i];
                }
            }
            for j in 0..pad {
                proof.insert(bystanders[j].pk, bsigs[j].clone());
            }
            rep.count("proofs padded with valid signatures of non-voters");
            let got = match confirm(s, proof) {
                Ok(g) => g,
                Err(m) => {
                    rep.violate("C14|confirm-panics|SealedState::confirm|valid-signatures,non-voters-added", format!("confirm panicked: {}", m), json!({"setup": s.desc, "signers_mask": mask, "non_voters": pad}));
                    continue;
                }
            };
            let wit = json!({"setup": s.desc, "signers_mask": format!("{:b}", mask), "valid_signatures_of_non_voters": pad, "present": present.to_string(), "total": s.total.to_string(), "confirmed": got});
            if big3(present) > big2(s.total) && !got {
                rep.violate("C14|majority-does-not-confirm|SealedState::confirm|valid-signatures-of-non-voters-added", "a proof with valid signatures from more than two thirds of the voting power does not confirm once valid signatures of keys without voting power are added".into(), wit);
            } else if big3(present) < big2(s.total) && got {
                rep.violate("C14|minority-confirms|SealedState::confirm|valid-signatures-of-non-voters-added", "signers holding less than two thirds confirm the state when keys without voting power sign as well".into(), wit);
            } else if outcome[mask] && !got {
                rep.violate("C14|adding-signature-unconfirms|SealedState::confirm|non-voter-added", "a confirming proof stops confirming when valid signatures of non-voters are added".into(), wit);
            }
        }
    }
    // monotonicity: adding a valid signature never un-confirms
    for mask in 0..(1usize << n) {
        for i in 0..n {
            if mask & (1 << i) == 0 && outcome[mask] && !outcome[mask | (1 << i)] {
                rep.violate(
                    "C14|adding-signature-unconfirms|SealedState::confirm|superset",
                    "a confirming proof stops confirming when one more valid signature is added".into(),
                    json!({"setup": s.desc, "from": format!("{:b}", mask), "added": i}),
                );
            }
        }
    }
}

fn check_invalid(rep: &mut Report, s: &Setup, r: &mut Rng) {
    let n = s.keys.len();
    let hh = s.sealed.header().hash();
    let good: Vec<Bytes> = s.keys.iter().map(|k| Bytes::from(k.sk.sign(&hh.0))).collect();
    let foreign = key_n(999, 1);
    for variant in 0..6 {
        rep.eval();
        let mut proof: BTreeMap<Ed25519PK, Bytes> = BTreeMap::new();
        for i in 0..n {
            proof.insert(s.keys[i].pk, good[i].clone());
        }
        let victim = r.usize(n);
        let label = match variant {
            0 => {
                let mut v = good[victim].to_vec();
                let p = r.usize(v.len());
                v[p] ^= 1 << r.below(8);
                proof.insert(s.keys[victim].pk, v.into());
                "bit-flipped"
            }
            1 => {
                if n < 2 {
                    continue;
                }
                let other = (victim + 1) % n;
                proof.insert(s.keys[victim].pk, good[other].clone());
                "swapped-between-keys"
            }
            2 => {
                proof.insert(s.keys[victim].pk, Bytes::from(foreign.sk.sign(&hh.0)));
                "signed-by-foreign-key"
            }
            3 => {
                let other_msg = tmelcrypt::hash_single(b"another header");
                proof.insert(s.keys[victim].pk, Bytes::from(s.keys[victim].sk.sign(&other_msg.0)));
                "signature-over-other-header"
            }
            4 => {
                proof.insert(s.keys[victim].pk, Bytes::from(good[victim][..63].to_vec()));
                "truncated"
            }
            _ => {
                // a non-staker adds an INVALID signature to an otherwise full proof
                proof.insert(foreign.pk, Bytes::from(vec![0u8; 64]));
                "extra-invalid-signature-of-non-staker"
            }
        };
        rep.count(&format!("invalid:{}", label));
        rep.nontrivial(fnv(format!("{}|inv{}|{}", s.desc, variant, victim).as_bytes()));
        match confirm(s, proof) {
            Ok(true) => rep.violate(
                &format!("C14|invalid-signature-confirms|SealedState::confirm|{}", label),
                "a proof containing an invalid signature confirms the state".into(),
                json!({"setup": s.desc, "variant": label, "victim": victim}),
            ),
            Ok(false) => {}
            Err(m) => rep.violate("C14|confirm-panics|SealedState::confirm|invalid-signature", format!("confirm panicked: {}", m), json!({"setup": s.desc, "variant": label})),
        }
    }
}

/// Signatures over one state's header say nothing about another state - whatever this process has verified before.
/// The full proof of state A (which confirms A, so every pair in it has just been verified) is offered to A's child
/// B and to B's sibling B' (same parent, another proposer action), and the other way round.
fn check_replayed(rep: &mut Report, s: &Setup) {
    let a = s.sealed.clone();
    let made = guarded(move || {
        let b = a.next_unsealed().seal(None);
        let b2 = a.next_unsealed().seal(Some(melstructs::ProposerAction { fee_multiplier_delta: 0, reward_dest: melstructs::Address(tmelcrypt::HashVal([7u8; 32])) }));
        (b, b2)
    });
    let (b, b2) = match made {
        Ok(x) => x,
        Err(_) => return,
    };
    let states = [("parent", s.sealed.clone()), ("child", b), ("child-sibling", b2)];
    let proofs: Vec<BTreeMap<Ed25519PK, Bytes>> = states
        .iter()
        .map(|(_, st)| {
            let hh = st.header().hash();
            s.keys.iter().map(|k| (k.pk, Bytes::from(k.sk.sign(&hh.0)))).collect()
        })
        .collect();
    for round in 0..2 {
        for (i, (ni, st)) in states.iter().enumerate() {
            for (j, (nj, _)) in states.iter().enumerate() {
                // round 0: only the own proofs, so that every pair has been seen to verify; round 1: everything
                if round == 0 && i != j {
                    continue;
                }
                rep.eval();
                let st2 = st.clone();
                let pf = proofs[j].clone();
                let got = guarded(move || st2.confirm(pf).is_some());
                if i != j && states[i].1.header().hash() != states[j].1.header().hash() {
                    rep.count("full proofs of one state offered to another state after both had been confirmed");
                    if let Ok(true) = got {
                        rep.violate(
                            "C14|invalid-signature-confirms|SealedState::confirm|signatures-over-another-states-header,seen-valid-before",
                            format!("the {} was confirmed by signatures over the header of the {}, which this process had verified for that state before", ni, nj),
                            json!({"setup": s.desc, "confirmed": ni, "signatures_of": nj}),
                        );
                    }
                } else if i == j && round == 1 {
                    if let Ok(false) = got {
                        rep.violate("C14|majority-does-not-confirm|SealedState::confirm|all-stakers-sign,after-foreign-proofs", "the proof signed by all stakers stopped confirming after proofs of other states had been offered".into(), json!({"setup": s.desc, "state": ni}));
                    }
                }
            }
        }
    }
}

pub fn run(p: &Params) -> Report {
    let mut rep = Report::new("C14");
    rep.rule = "cases = (stake distribution, signer subset): every subset of signers for every weight tuple from {1,2,3,5,8}^n, n = 1..4 exhaustively and sampled tuples for n = 5,6, at heights in epochs 0/1/7, with and without stakes of the same keys outside the epoch and with a key's weight split over two stakes; plus proofs with one corrupted/swapped/foreign/other-header/truncated signature, and the full proofs of a state, its child and the child's sibling offered to one another after each has confirmed its own. Oracle: 3*present > 2*total => confirms, 3*present < 2*total => does not, any invalid signature => does not, supersets never un-confirm. Non-trivial = every (distribution, subset) pair; distinct by its description".into();
    let ws = [1u128, 2, 3, 5, 8];
    let mut tuples: Vec<Vec<u128>> = vec![];
    for n in 1..=4usize {
        let mut idx = vec![0usize; n];
        loop {
            tuples.push(idx.iter().map(|i| ws[*i]).collect());
            let mut k = 0;
            while k < n {
                idx[k] += 1;
                if idx[k] < ws.len() {
                    break;
                }
                idx[k] = 0;
                k += 1;
            }
            if k == n {
                break;
            }
        }
    }
    let mut r = Rng::new(p.seed ^ 0xC14);
    let extra = p.n(300, 6000);
    for _ in 0..extra {
        let n = 5 + r.usize(2);
        tuples.push((0..n).map(|_| *r.pick(&ws)).collect());
    }
    // large weights near overflow boundaries too
    tuples.push(vec![1u128 << 100, 1u128 << 100, 1u128 << 100]);
    tuples.push(vec![1u128 << 125, 1u128 << 125, 1u128 << 125]);
    tuples.push(vec![(1u128 << 126) + 1, 1u128 << 125, 1u128 << 124]);
    tuples.push(vec![1, 1, 1]);
    tuples.push(vec![2, 1]);
    let mut rr = Rng::new(p.shard_seed() ^ 0xC14);
    for (i, t) in tuples.iter().enumerate() {
        if (i as u64) % p.nshards != p.shard {
            continue;
        }
        let height = *rr.pick(&[5u64, 199_999, 200_000, 1_400_003]);
        let inactive = rr.chance(1, 3);
        let split = rr.chance(1, 4);
        if t.iter().any(|w| *w > (1u128 << 90)) && (inactive || split) {
            continue;
        }
        let s = setup(p.seed, t, height, inactive, split);
        if t.iter().copied().fold(0u128, |a, b| a.saturating_add(b)) <= (1u128 << 127) {
            check_subsets(&mut rep, &s);
        } else {
            // totals this large are outside the property's arithmetic (3*present would not fit); only the no-panic part
            let hh = s.sealed.header().hash();
            let mut proof = BTreeMap::new();
            for k in &s.keys {
                proof.insert(k.pk, Bytes::from(k.sk.sign(&hh.0)));
            }
            rep.eval();
            if let Err(m) = confirm(&s, proof) {
                rep.violate("C14|confirm-panics|SealedState::confirm|huge-stakes", format!("confirm panicked: {}", m), json!({"setup": s.desc}));
            }
        }
        if i % 7 == 0 {
            check_invalid(&mut rep, &s, &mut rr);
        }
        if i % 3 == 0 && t.iter().copied().fold(0u128, |a, b| a.saturating_add(b)) <= (1u128 << 127) {
            check_replayed(&mut rep, &s);
        }
        if rep.samples.len() < 3 {
            rep.sample(json!({"stake_distribution": s.desc, "subsets_checked": 1u64 << t.len()}));
        }
    }
    rep.require("subsets above 2/3", 200);
    rep.require("subsets below 2/3", 200);
    rep.require("proofs padded with valid signatures of non-voters", 500);
    rep.require("full proofs of one state offered to another state after both had been confirmed", 300);
    rep
}
