//! C13 - staked SYM is locked for the life of the stake; voting power follows the stakes.
use std::collections::{BTreeMap, HashMap};

use bytes::Bytes;
use melstructs::{
    BlockHeight, CoinData, CoinDataHeight, CoinID, CoinValue, Denom, NetID, StakeDoc, Transaction, TxHash, TxKind,
};
use serde_json::json;
use stdcode::StdcodeSerializeExt;
use tmelcrypt::HashVal;

use crate::gen::*;
use crate::guard::guarded;
use crate::model::stake_registers;
use crate::refsmt;
use crate::report::Report;
use crate::rng::{fnv, Rng};
use crate::world::*;
use crate::Params;

struct Model {
    /// registered, unexpired stakes
    reg: HashMap<TxHash, StakeDoc>,
    /// every stake transaction accepted in this lineage, with whether the model says it registered
    seen: HashMap<TxHash, (StakeDoc, bool, String)>,
    /// stakes that expired (for the "spendable again" check)
    expired: Vec<(TxHash, StakeDoc)>,
}

fn ordering(cur: u64, s: u64, e: u64) -> String {
    let c = |a: u64, b: u64| if a < b { "<" } else if a == b { "=" } else { ">" };
    format!("start{}cur,end{}start,end{}cur", c(s, cur), c(e, s), c(e, cur))
}

fn check_registry(rep: &mut Report, w: &World, m: &Model, site: &str, case_seed: u64) {
    rep.eval();
    let got: HashMap<TxHash, StakeDoc> = w.cur.verif_stakes().into_iter().collect();
    let wit = |extra: serde_json::Value| json!({"case_seed": case_seed, "origin": w.origin, "height": w.height(), "site": site, "detail": extra});
    for (h, (doc, registers, applied_as)) in m.seen.iter() {
        let should = m.reg.contains_key(h);
        let is = got.contains_key(h);
        if should != is {
            let cur = w.height() / STAKE_EPOCH;
            let what = if is { "registered-but-should-not-be" } else { "missing-from-registry" };
            rep.violate(
                &format!("C13|{}|{}|{}", what, site, if *registers { "consistent-document".to_string() } else { applied_as.clone() }),
                format!("stake {:?} (start {}, end {}, current epoch {}): model says registered={}, state says {}", hex::encode(&h.0 .0[..6]), doc.e_start, doc.e_post_end, cur, should, is),
                wit(json!({"doc": format!("{:?}", doc), "applied_as": applied_as})),
            );
        }
    }
    for h in got.keys() {
        if !m.reg.contains_key(h) && !m.seen.contains_key(h) {
            rep.violate(&format!("C13|unknown-stake-registered|{}|unknown", site), "the stake set holds a stake no accepted transaction created".into(), wit(json!({"txhash": hex::encode(h.0 .0)})));
        }
    }
    rep.count("registry comparisons");
}

fn check_votes(rep: &mut Report, w: &World, m: &Model, case_seed: u64) {
    let tip = match &w.tip {
        Some(t) => t,
        None => return,
    };
    let hdr = tip.header();
    let epoch = hdr.height.0 / STAKE_EPOCH;
    let ss = tip.raw_stakes();
    // the sealed state's stakes are those of the block just sealed: model registry before expiry of the next block
    let reg: HashMap<TxHash, StakeDoc> = ss.iter().map(|(k, v)| (*k, *v)).collect();
    let _ = reg;
    let mut keys: Vec<tmelcrypt::Ed25519PK> = m.seen.values().map(|d| d.0.pubkey).collect();
    keys.extend(w.owners.iter().map(|o| o.key.pk));
    keys.sort();
    keys.dedup();
    for e in [epoch.saturating_sub(1), epoch, epoch + 1, epoch + 2, epoch + 5] {
        rep.eval();
        let mut total: u128 = 0;
        for k in &keys {
            let want: u128 = ss.iter().filter(|(_, d)| d.pubkey == *k && d.e_start <= e && e < d.e_post_end).map(|(_, d)| d.syms_staked.0).sum();
            let got = ss.votes(e, *k);
            total += want;
            if want != got {
                rep.violate("C13|votes-wrong|StakeSet::votes|key", format!("votes of a key in epoch {}: {} instead of {}", e, got, want), json!({"case_seed": case_seed, "origin": w.origin, "height": hdr.height.0, "epoch": e}));
            }
        }
        let all: u128 = ss.iter().filter(|(_, d)| d.e_start <= e && e < d.e_post_end).map(|(_, d)| d.syms_staked.0).sum();
        if ss.total_votes(e) != all || all < total {
            rep.violate("C13|votes-wrong|StakeSet::total_votes|total", format!("total votes in epoch {}: {} instead of {}", e, ss.total_votes(e), all), json!({"case_seed": case_seed, "origin": w.origin, "height": hdr.height.0, "epoch": e}));
        }
        rep.count("vote tallies compared");
    }
    // commitment: exactly the model's registered stakes as of this block
    let c: BTreeMap<[u8; 32], Vec<u8>> = ss.iter().map(|(k, v)| (tmelcrypt::hash_single(&k.stdcode()).0, v.stdcode())).collect();
    if refsmt::sparse_root(&c) != hdr.stakes_hash.0 {
        rep.violate("C13|stake-commitment-wrong|header|stakes_hash", "stakes_hash is not the Merkle root over the registered stakes".into(), json!({"case_seed": case_seed, "origin": w.origin, "height": hdr.height.0}));
    }
}

/// Tries to spend `id` in an otherwise valid transaction on a clone of the current state.
fn try_spend(w: &mut World, id: CoinID, cdh: &CoinDataHeight) -> Option<(Transaction, bool)> {
    let mel = w.spendable().into_iter().find(|(i, c)| c.coin_data.denom == Denom::Mel && c.coin_data.value.0 > 0 && c.coin_data.value.0 <= MAX_COINVAL && *i != id)?;
    let inputs = vec![mel, (id, cdh.clone())];
    let tx = w.complete(TxKind::Normal, inputs, vec![], vec![], 0)?;
    let mut st = w.cur.clone();
    let r = guarded(|| st.apply_tx(&tx)).ok()?;
    Some((tx, r.is_ok()))
}

pub fn run(p: &Params) -> Report {
    let mut rep = Report::new("C13");
    rep.rule = "cases = histories on networks/heights outside the legacy windows, fabricated 1-3 blocks before an epoch boundary (k*200000) so that real seal/next_unsealed calls cross it, with pre-existing stakes ending in the current, next and later epochs and stake transactions covering every ordering of (current, start, end) epochs, equal/unequal amounts, wrong first-output denomination (alone, and followed by a SYM output equal to the declared amount), undecodable documents; one stake batch in three carries a second stake transaction (consistent or inconsistent) before or after the first. A stake model (registered iff first output SYM = declared amount, start > current epoch, end > start; removed when the epoch after `end` begins) is compared after every batch and block with the registered set, votes()/total_votes() for 5 epochs and the stakes_hash; every registered stake's coin is spent in an otherwise valid transaction on a clone (same block, later blocks, across the boundary) and must be refused until the epoch after `end`, then accepted. Non-trivial = each stake document applied and each spend attempt; distinct by transaction hash and height".into();
    let total = p.n(1000, 25000);
    let mine = p.share(total);
    let mut rng = Rng::new(p.shard_seed() ^ 0xC13);
    for case in 0..mine {
        let case_seed = rng.next();
        if let Some(only) = p.only_case {
            if only != case_seed {
                continue;
            }
        }
        let mut r = Rng::new(case_seed);
        let net = *r.pick(&[NetID::Custom02, NetID::Custom02, NetID::Custom08, NetID::Testnet, NetID::Mainnet]);
        let e = match net {
            NetID::Mainnet | NetID::Testnet => 5 + r.below(4),
            _ => r.below(6),
        };
        let boundary = (e + 1) * STAKE_EPOCH;
        let height = boundary - 1 - r.below(3);
        // fabricate with pre-existing stakes and their coins
        let owners = make_owners(case_seed, 4);
        let mut fab = Fab::new(net, height);
        let mut model = Model { reg: HashMap::new(), seen: HashMap::new(), expired: vec![] };
        let mut ids = vec![];
        for i in 0..(2 + r.usize(4)) {
            let txhash = TxHash(HashVal(r.arr32()));
            let (s, en) = match i % 4 {
                0 => (e.saturating_sub(1), e),     // ends this epoch: locked until the boundary, free after
                1 => (e, e + 1),                   // ends next epoch
                2 => (e + 1, e + 3),               // not yet started
                _ => (0, e + 2),
            };
            let v = 1_000_000 + r.below(1_000_000) as u128;
            let doc = StakeDoc { pubkey: owners[i % 4].key.pk, e_start: s, e_post_end: en, syms_staked: CoinValue(v) };
            fab.stakes.push((txhash, doc));
            model.reg.insert(txhash, doc);
            model.seen.insert(txhash, (doc, true, "pre-existing".to_string()));
            let id = CoinID { txhash, index: 0 };
            fab.coins.push((id, CoinDataHeight { coin_data: CoinData { covhash: owners[i % 4].addr_new, value: CoinValue(v), denom: Denom::Sym, additional_data: Bytes::new() }, height: BlockHeight(height - 1) }));
            ids.push(id);
        }
        // spending money
        for i in 0..10u64 {
            let id = CoinID { txhash: TxHash(tmelcrypt::hash_keyed(b"c13coin", (case_seed ^ i).to_be_bytes())), index: 0 };
            let denom = if i % 2 == 0 { Denom::Mel } else { Denom::Sym };
            fab.coins.push((id, CoinDataHeight { coin_data: CoinData { covhash: owners[(i % 4) as usize].addr_new, value: CoinValue(1 << 60), denom, additional_data: Bytes::new() }, height: BlockHeight(height - 1) }));
            ids.push(id);
        }
        let mut w = World::fabricated(case_seed, net, height, 0, 0);
        // replace the world's state by ours (keeps owners/unlock tables, which derive from the same seed)
        let sealed = fab.build(&w.db);
        w.cur = sealed.next_unsealed();
        w.tip = Some(sealed);
        w.known_ids.clear();
        for id in ids {
            w.learn_id(id);
        }
        w.refresh();
        w.origin = format!("c13 net={:?} fabricated height={} epoch={} boundary={}", net, height, e, boundary);
        // expiry for the first opened block
        let open_epoch = w.height() / STAKE_EPOCH;
        let gone: Vec<TxHash> = model.reg.iter().filter(|(_, d)| d.e_post_end < open_epoch).map(|(k, _)| *k).collect();
        for g in gone {
            let d = model.reg.remove(&g).unwrap();
            model.expired.push((g, d));
        }
        check_registry(&mut rep, &w, &model, "after-fabrication", case_seed);
        let blocks = 5 + r.usize(3);
        for _b in 0..blocks {
            if w.dead {
                break;
            }
            let cur_epoch = w.height() / STAKE_EPOCH;
            // ---- stake transactions of every ordering
            for _ in 0..(1 + r.usize(3)) {
                let inputs = w.pick_inputs(&[Denom::Sym, Denom::Mel], 0);
                let avail: u128 = inputs.iter().filter(|(_, c)| c.coin_data.denom == Denom::Sym).map(|(_, c)| c.coin_data.value.0).sum();
                if avail < 4 || !inputs.iter().any(|(_, c)| c.coin_data.denom == Denom::Mel) {
                    continue;
                }
                let s = match r.below(4) {
                    0 => cur_epoch.saturating_sub(1),
                    1 => cur_epoch,
                    2 => cur_epoch + 1,
                    _ => cur_epoch + 2,
                };
                let en = match r.below(6) {
                    0 => s.saturating_sub(1),
                    1 => s,
                    2 => s + 1,
                    3 => cur_epoch,
                    4 => cur_epoch + 1,
                    _ => cur_epoch + 3,
                };
                let v = 1 + r.below((avail / 2).min(1 << 40) as u64) as u128;
                // declared amount: equal, or unequal in a way a narrower or sloppier comparison could miss (off by one, by a
                // multiple of 2^32 / 2^64 / 2^127, doubled, zero)
                let staked = if r.chance(1, 4) {
                    match r.below(8) {
                        0 => v + 1,
                        1 => v.saturating_sub(1),
                        2 => v + (1u128 << 64) * (1 + r.below(5) as u128),
                        3 => v + (1u128 << 32),
                        4 => v | (1u128 << 127),
                        5 => v * 2,
                        6 => 0,
                        _ => v + ((r.next() as u128) << 64),
                    }
                } else {
                    v
                };
                let o = r.usize(4);
                let doc = StakeDoc { pubkey: w.owners[o].key.pk, e_start: s, e_post_end: en, syms_staked: CoinValue(staked) };
                let variant = r.below(10);
                let first_denom = if variant == 0 { Denom::Mel } else { Denom::Sym };
                let data = if variant == 1 { r.bytes(r.clone().usize(50)) } else { doc.stdcode() };
                // a non-SYM first output either alone, or followed by a SYM output that matches the document exactly
                let sym_second = first_denom == Denom::Mel && r.chance(2, 3);
                let payload = if sym_second {
                    vec![
                        CoinData { covhash: w.owners[o].addr_new, value: CoinValue(1), denom: Denom::Mel, additional_data: Bytes::new() },
                        CoinData { covhash: w.owners[o].addr_new, value: CoinValue(staked), denom: Denom::Sym, additional_data: Bytes::new() },
                    ]
                } else {
                    vec![CoinData { covhash: w.owners[o].addr_new, value: CoinValue(v), denom: first_denom, additional_data: Bytes::new() }]
                };
                let inputs = if first_denom == Denom::Mel && !sym_second { inputs.into_iter().filter(|(_, c)| c.coin_data.denom == Denom::Mel).collect() } else { inputs };
                let tx = match w.complete(TxKind::Stake, inputs, payload, data, 0) {
                    Some(t) => t,
                    None => continue,
                };
                let h = tx.hash_nosigs();
                let decodes = stdcode::deserialize::<StakeDoc>(&tx.data).is_ok();
                let registers = stake_registers(&tx, w.height());
                let cls = if !decodes { "undecodable-document".to_string() } else if first_denom != Denom::Sym { if sym_second { "first-output-not-SYM,second-is-the-declared-SYM".to_string() } else { "first-output-not-SYM".to_string() } } else if staked != v { "amount-mismatch".to_string() } else { ordering(cur_epoch, s, en) };
                // a second stake transaction in the same batch, before or after the first: each is judged on its own,
                // whatever the scan made of the other (consistent next to inconsistent, in both orders)
                let mut second: Option<(Transaction, StakeDoc, Option<StakeDoc>)> = None;
                if r.chance(1, 3) {
                    let others: Vec<(CoinID, CoinDataHeight)> = w.spendable().into_iter().filter(|(i, c)| !tx.inputs.contains(i) && c.coin_data.value.0 <= MAX_COINVAL).collect();
                    let sym = others.iter().find(|(_, c)| c.coin_data.denom == Denom::Sym && c.coin_data.value.0 >= 4).cloned();
                    let mel = others.iter().find(|(_, c)| c.coin_data.denom == Denom::Mel && c.coin_data.value.0 > 0).cloned();
                    if let (Some(sym), Some(mel)) = (sym, mel) {
                        let v2 = 1 + r.below((sym.1.coin_data.value.0 / 2).min(1 << 40) as u64) as u128;
                        let o2 = r.usize(4);
                        // consistent (start in the future, end after it, amount equal) or inconsistent in one of three ways
                        let (s2, e2, a2) = match r.below(5) {
                            0 => (cur_epoch, cur_epoch + 2, v2),
                            1 => (cur_epoch + 1, cur_epoch + 1, v2),
                            2 => (cur_epoch + 1, cur_epoch + 3, v2 + 1),
                            _ => (cur_epoch + 1, cur_epoch + 2 + r.below(2), v2),
                        };
                        let doc2 = StakeDoc { pubkey: w.owners[o2].key.pk, e_start: s2, e_post_end: e2, syms_staked: CoinValue(a2) };
                        let payload2 = vec![CoinData { covhash: w.owners[o2].addr_new, value: CoinValue(v2), denom: Denom::Sym, additional_data: Bytes::new() }];
                        if let Some(t2) = w.complete(TxKind::Stake, vec![sym, mel], payload2, doc2.stdcode(), 0) {
                            let reg2 = stake_registers(&t2, w.height());
                            second = Some((t2, doc2, reg2));
                        }
                    }
                }
                // same-batch spend attempt of the staked coin
                let with_spend = second.is_none() && r.chance(1, 4);
                let mut batch = vec![tx.clone()];
                let mut labels = vec![format!("stake {}", cls)];
                if let Some((t2, _, reg2)) = &second {
                    let l2 = format!("second-stake {}", if reg2.is_some() { "consistent" } else { "inconsistent" });
                    if r.chance(1, 2) {
                        batch.insert(0, t2.clone());
                        labels.insert(0, l2);
                    } else {
                        batch.push(t2.clone());
                        labels.push(l2);
                    }
                    rep.count(&format!("batches with two stake transactions: first {}, second {}", if batch[0].hash_nosigs() == h { if registers.is_some() { "consistent" } else { "not-registering" } } else if reg2.is_some() { "consistent" } else { "not-registering" }, if batch[1].hash_nosigs() == h { if registers.is_some() { "consistent" } else { "not-registering" } } else if reg2.is_some() { "consistent" } else { "not-registering" }));
                }
                if let Some((t2, _, reg2)) = &second {
                    let first_is_tx = batch[0].hash_nosigs() == h;
                    let (r_first, r_second) = if first_is_tx { (registers.is_some(), reg2.is_some()) } else { (reg2.is_some(), registers.is_some()) };
                    let first_decodes = if first_is_tx { decodes && first_denom == Denom::Sym } else { true };
                    let _ = t2;
                    if !r_first && r_second && first_decodes {
                        rep.count("batches with an inconsistent stake presented before a consistent one");
                    }
                }
                if with_spend {
                    let staked_coin = (CoinID { txhash: h, index: 0 }, CoinDataHeight { coin_data: tx.outputs[0].clone(), height: BlockHeight(w.height()) });
                    if let Some(mel) = w.spendable().into_iter().find(|(i, c)| c.coin_data.denom == Denom::Mel && !tx.inputs.contains(i) && c.coin_data.value.0 <= MAX_COINVAL) {
                        w.learn_tx(&tx);
                        if let Some(sp) = w.complete(TxKind::Normal, vec![mel, staked_coin], vec![], vec![], 0) {
                            batch.push(sp);
                            labels.push("spend-of-staked-coin-in-same-batch".into());
                        }
                    }
                }
                rep.eval();
                rep.nontrivial(fnv(&h.0 .0));
                let n_batch = batch.len();
                let ev = w.apply_batch(batch, labels);
                let wit = json!({"case_seed": case_seed, "origin": w.origin, "height": ev.pre.snap.height.0, "class": cls, "doc": format!("{:?}", doc), "tx_hex": tx_hex(&tx), "result": format!("{:?}", ev.result.as_ref().map_err(|p| p.message.clone()))});
                match &ev.result {
                    Ok(Ok(())) => {
                        rep.count(&format!("stake applied: {} -> accepted", cls));
                        if !decodes || first_denom != Denom::Sym {
                            // accepting it is not what the statement forbids; registering it is (check_registry below)
                            rep.count("accepted a stake transaction with an undecodable document or a non-SYM first output (must not register)");
                        }
                        if n_batch == 2 && registers.is_some() && second.is_none() {
                            rep.violate("C13|staked-coin-spent|apply_tx_batch|same-batch", "the staked coin was spent in the batch that created the stake".into(), wit.clone());
                        }
                        model.seen.insert(h, (doc, registers.is_some(), cls.clone()));
                        if let Some(d) = registers {
                            model.reg.insert(h, d);
                        }
                        if let Some((t2, doc2, reg2)) = &second {
                            let h2 = t2.hash_nosigs();
                            model.seen.insert(h2, (*doc2, reg2.is_some(), "second-stake-of-the-batch".into()));
                            if let Some(d) = reg2 {
                                model.reg.insert(h2, *d);
                            }
                        }
                    }
                    Ok(Err(_)) => {
                        rep.count(&format!("stake applied: {} -> rejected", cls));
                        if n_batch == 1 && decodes && first_denom == Denom::Sym {
                            // the statement allows acceptance without registration; a rejection of a well-formed stake is unexpected but not a violation
                            rep.count("well-formed stake transaction rejected (observed, not claimed)");
                        }
                    }
                    Err(_) => {}
                }
                if w.dead {
                    break;
                }
                check_registry(&mut rep, &w, &model, "apply_tx_batch", case_seed);
            }
            if w.dead {
                break;
            }
            // ---- lock: every registered stake's coin must be unspendable; expired ones spendable
            let reg: Vec<(TxHash, StakeDoc)> = model.reg.iter().map(|(k, v)| (*k, *v)).collect();
            for (h, d) in reg {
                let id = CoinID { txhash: h, index: 0 };
                let cdh = match w.utxo.get(&id) {
                    Some(c) => c.clone(),
                    None => continue,
                };
                if let Some((tx, ok)) = try_spend(&mut w, id, &cdh) {
                    rep.eval();
                    let mut fp = h.0 .0.to_vec();
                    fp.extend_from_slice(&w.height().to_be_bytes());
                    rep.nontrivial(fnv(&fp));
                    rep.count("spend attempts on locked stake coins");
                    if ok {
                        let cur = w.height() / STAKE_EPOCH;
                        let rel = if cur < d.e_start { "before-start" } else if cur < d.e_post_end { "active" } else { "in-epoch-numbered-end" };
                        rep.violate(&format!("C13|locked-coin-spent|apply_tx|{}", rel), format!("the coin of a registered stake (start {}, end {}) was spent in epoch {}", d.e_start, d.e_post_end, cur), json!({"case_seed": case_seed, "origin": w.origin, "height": w.height(), "doc": format!("{:?}", d), "tx_hex": tx_hex(&tx)}));
                    }
                }
            }
            let exp = model.expired.clone();
            for (h, d) in exp {
                let id = CoinID { txhash: h, index: 0 };
                let cdh = match w.utxo.get(&id) {
                    Some(c) => c.clone(),
                    None => continue,
                };
                if let Some((tx, ok)) = try_spend(&mut w, id, &cdh) {
                    rep.eval();
                    rep.count("spend attempts on expired stake coins");
                    if !ok {
                        let cur = w.height() / STAKE_EPOCH;
                        rep.violate("C13|expired-stake-still-locked|apply_tx|after-end-epoch", format!("the coin of a stake that ended with epoch {} cannot be spent in epoch {}", d.e_post_end, cur), json!({"case_seed": case_seed, "origin": w.origin, "height": w.height(), "doc": format!("{:?}", d), "tx_hex": tx_hex(&tx)}));
                    }
                }
            }
            // ---- seal and open the next block
            let action = w.gen_action();
            let ev = w.seal_next(action);
            if ev.panic.is_some() || w.dead {
                break;
            }
            check_votes(&mut rep, &w, &model, case_seed);
            let new_epoch = w.height() / STAKE_EPOCH;
            let gone: Vec<TxHash> = model.reg.iter().filter(|(_, d)| d.e_post_end < new_epoch).map(|(k, _)| *k).collect();
            if new_epoch != cur_epoch {
                rep.count("epoch boundaries crossed");
            }
            for g in gone {
                let d = model.reg.remove(&g).unwrap();
                model.expired.push((g, d));
                rep.count("stakes expired by the model");
            }
            check_registry(&mut rep, &w, &model, "next_unsealed", case_seed);
        }
        if rep.samples.len() < 3 {
            rep.sample(json!({"origin": w.origin, "stakes_seen": model.seen.len(), "registered_at_end": model.reg.len(), "expired": model.expired.len()}));
        }
    }
    if p.only_case.is_none() {
        rep.require("epoch boundaries crossed", p.n(100, 2000));
        rep.require("spend attempts on locked stake coins", p.n(500, 10000));
        rep.require("spend attempts on expired stake coins", p.n(30, 600));
        rep.require("batches with an inconsistent stake presented before a consistent one", p.n(30, 600));
    }
    rep
}
