//! C06 - a block is accepted exactly when it is the correct successor.
use bytes::Bytes;
use melstructs::{Block, CoinValue, Header, NetID, ProposerAction, Transaction};
use serde_json::json;
use tmelcrypt::HashVal;

use crate::gen::*;
use crate::guard::guarded;
use crate::report::Report;
use crate::rng::{fnv, Rng};
use crate::world::*;
use crate::Params;

pub struct C06 {
    pub rep: Report,
    pub case_seed: u64,
    r: Rng,
    /// (case, height) of a block in which an accepted batch raised the DOSC speed, and whether another accepted batch
    /// followed it in that block
    raised_in: Option<(u64, u64, bool)>,
}

/// The statement's own criterion, evaluated through the public API: the header obtained by applying
/// the block's transactions and action to the parent and sealing, or None if the batch is invalid.
fn expected_header(parent: &Sealed, blk: &Block) -> Option<Header> {
    let mut st = parent.next_unsealed();
    let txs: Vec<Transaction> = {
        let mut v: Vec<Transaction> = blk.transactions.iter().cloned().collect();
        v.sort_by_key(|t| t.hash_nosigs());
        v
    };
    st.apply_tx_batch(&txs).ok()?;
    Some(st.seal(blk.proposer_action).header())
}

impl C06 {
    fn judge(&mut self, w: &World, parent: &Sealed, blk: &Block, what: &str, height: u64) {
        self.rep.eval();
        let exp = match guarded(|| expected_header(parent, blk)) {
            Ok(e) => e,
            Err(_) => {
                self.rep.count("reference evaluation panicked (left to C09)");
                return;
            }
        };
        let should_accept = exp.map(|h| h == blk.header).unwrap_or(false);
        let p2 = parent.clone();
        let b2 = blk.clone();
        let got = guarded(move || p2.apply_block(&b2).map(|s| s.header()));
        let wit = json!({"case_seed": self.case_seed, "origin": w.origin, "height": height, "mutation": what,
            "declared_header": header_json(&blk.header), "recomputed_header": exp.as_ref().map(header_json),
            "action": format!("{:?}", blk.proposer_action), "txs_hex": blk.transactions.iter().map(tx_hex).collect::<Vec<_>>(),
            "result": format!("{:?}", got.as_ref().map(|r| r.as_ref().map(header_json).map_err(|e| format!("{:?}", e))).map_err(|p| p.message.clone()))});
        let mut fp = blk.header.hash().0.to_vec();
        fp.extend_from_slice(what.as_bytes());
        if what != "honest" || !blk.transactions.is_empty() {
            self.rep.nontrivial(fnv(&fp));
        }
        match got {
            Err(_) => {
                self.rep.count("apply_block panicked (left to C09)");
            }
            Ok(Ok(h)) => {
                let tx_must_reject = what.starts_with("transaction-");
                if tx_must_reject {
                    // likewise: adding, removing or changing a transaction (any field, signatures included)
                    // always changes what a correct implementation commits to in transactions_hash
                    self.rep.violate(&format!("C06|accepts-changed-transaction-set|apply_block|{}", what), format!("a block whose transaction set was altered ({}) was accepted", what), wit);
                    return;
                }
                let action_must_reject = what == "action-changed:destination" || what == "action-added" || what == "action-dropped" || what == "action-changed:delta,specified-step-differs";
                if action_must_reject {
                    // the statement says outright that changing the proposer action makes the block rejected; a
                    // changed destination, or adding/dropping the action, always changes what a correct
                    // implementation commits to (the reward coin exists whenever there is an action)
                    self.rep.violate(&format!("C06|accepts-changed-proposer-action|apply_block|{}", what), format!("a block whose proposer action was altered ({}) was accepted", what), wit);
                } else if !should_accept {
                    let cls = if exp.is_none() { "invalid-transactions".to_string() } else { format!("header-mismatch,{}", what.split(':').next().unwrap_or(what)) };
                    self.rep.violate(&format!("C06|accepts-wrong-block|apply_block|{}", cls), format!("a block that is not the correct successor was accepted (mutation: {})", what), wit);
                } else {
                    if h != blk.header {
                        self.rep.violate("C06|returned-state-has-other-header|apply_block|accepted", "the state returned by apply_block does not have the block's header".into(), wit.clone());
                    }
                    // "all of the block's transactions are valid against that state": each member must also be acceptable
                    // when the members are applied one at a time, every one after those whose outputs it spends
                    if what == "honest" && blk.transactions.len() >= 2 {
                        let txs: Vec<Transaction> = blk.transactions.iter().cloned().collect();
                        let seq = crate::mon::c03::topo_order(&txs);
                        let p3 = parent.clone();
                        let bad = guarded(move || {
                            let mut st = p3.next_unsealed();
                            for (i, t) in seq.iter().enumerate() {
                                if let Err(e) = st.apply_tx(t) {
                                    return Some((i, format!("{:?}", e), t.kind));
                                }
                            }
                            None
                        });
                        self.rep.count("accepted blocks whose members were also applied one at a time");
                        if let Ok(Some((i, e, kind))) = bad {
                            self.rep.violate(&format!("C06|accepts-block-with-invalid-member|apply_block|honest-block,member-kind={}", kind), format!("the block was accepted although member {} (in dependency order) is refused when the members are applied one at a time: {}", i, e), wit);
                        }
                    }
                    self.rep.count(if what == "honest" { "honest blocks accepted" } else { "mutated blocks that are still correct successors, accepted" });
                }
            }
            Ok(Err(e)) if what == "honest" && !should_accept => {
                // the block was produced by the code under test itself, batch after batch, from this very parent:
                // "every block produced from an honestly built sealed state is accepted by its parent" - whatever a
                // one-batch recomputation of its header says
                let cls = if exp.is_none() { "members-refused-as-one-batch" } else { "header-differs-from-one-batch-recomputation" };
                self.rep.violate(&format!("C06|rejects-honest-block|apply_block|{}", cls), format!("a block sealed by an honest producer was rejected by its own parent: {:?}", e), wit);
            }
            Ok(Err(_)) => {
                if should_accept {
                    self.rep.violate(&format!("C06|rejects-correct-block|apply_block|{}", if what == "honest" { "honest" } else { "equivalent-mutation" }), format!("a block whose header equals the recomputed header was rejected (mutation: {})", what), wit);
                } else {
                    self.rep.count(&format!("rejected: {}", what.split(':').next().unwrap_or(what)));
                }
            }
        }
    }
}

impl Monitor for C06 {
    fn on_batch(&mut self, _w: &World, ev: &BatchEvent) {
        if !matches!(ev.result, Ok(Ok(()))) || ev.txs.is_empty() {
            return;
        }
        let here = (self.case_seed, ev.pre.snap.height.0);
        if let Some((c, h, _)) = self.raised_in {
            if (c, h) == here {
                self.raised_in = Some((c, h, true));
            }
        }
        if ev.post.snap.dosc_speed > ev.pre.snap.dosc_speed {
            self.raised_in = Some((here.0, here.1, false));
        }
    }

    fn on_seal(&mut self, w: &World, ev: &SealEvent) {
        if let Some((c, h, true)) = self.raised_in {
            if (c, h) == (self.case_seed, ev.height) && ev.panic.is_none() {
                self.rep.count("honest blocks in which a batch after the speed-raising mint followed");
            }
        }
        let (parent, child) = match (&w.prev_tip, &w.tip) {
            (Some(p), Some(c)) if ev.panic.is_none() => (p.clone(), c.clone()),
            _ => return,
        };
        let blk = child.to_block();
        // rebuild the HashSet so its iteration order is fresh
        let blk = Block { header: blk.header, transactions: blk.transactions.iter().cloned().collect(), proposer_action: blk.proposer_action };
        self.judge(w, &parent, &blk, "honest", ev.height);
        let r = &mut self.r;
        let mut muts: Vec<(String, Block)> = vec![];
        let h = blk.header;
        let mut hm = |name: &str, f: &dyn Fn(&mut Header)| {
            let mut b = blk.clone();
            f(&mut b.header);
            muts.push((format!("header-field:{}", name), b));
        };
        hm("network", &|h| h.network = if h.network == NetID::Custom02 { NetID::Custom03 } else { NetID::Custom02 });
        hm("previous", &|h| h.previous = HashVal([0x5a; 32]));
        hm("height", &|h| h.height.0 += 1);
        hm("history_hash", &|h| h.history_hash.0[3] ^= 1);
        hm("coins_hash", &|h| h.coins_hash.0[31] ^= 0x80);
        hm("transactions_hash", &|h| h.transactions_hash.0[0] ^= 1);
        hm("fee_pool", &|h| h.fee_pool = CoinValue(h.fee_pool.0 ^ 1));
        hm("fee_multiplier", &|h| h.fee_multiplier ^= 1);
        hm("dosc_speed", &|h| h.dosc_speed += 1);
        hm("pools_hash", &|h| h.pools_hash.0[7] ^= 4);
        hm("stakes_hash", &|h| h.stakes_hash.0[9] ^= 2);
        let _ = h;
        // transaction set
        let txs: Vec<Transaction> = blk.transactions.iter().cloned().collect();
        if !txs.is_empty() {
            let victim = txs[r.usize(txs.len())].clone();
            let mut b = blk.clone();
            b.transactions.remove(&victim);
            muts.push(("transaction-removed".into(), b));
            let mut b = blk.clone();
            b.transactions.remove(&victim);
            let mut v2 = victim.clone();
            v2.data = Bytes::from([v2.data.as_ref(), b"!"].concat());
            b.transactions.insert(v2);
            muts.push(("transaction-altered:data".into(), b));
            if !victim.outputs.is_empty() {
                let mut b = blk.clone();
                b.transactions.remove(&victim);
                let mut v2 = victim.clone();
                v2.outputs[0].value = CoinValue(v2.outputs[0].value.0 ^ 1);
                b.transactions.insert(v2);
                muts.push(("transaction-altered:output-value".into(), b));
            }
            let mut b = blk.clone();
            b.transactions.remove(&victim);
            let mut v2 = victim.clone();
            v2.sigs.push(Bytes::from_static(b"\x00"));
            b.transactions.insert(v2);
            muts.push(("transaction-altered:extra-signature-field".into(), b));
            // add a second copy of a member that differs only in its signatures (same signature-free hash, a
            // different member of the block); freshly built sets so that every iteration order gets its chance
            for _ in 0..3 {
                let mut v2 = victim.clone();
                v2.sigs.push(Bytes::from(r.bytes(1 + r.clone().usize(3))));
                let set: std::collections::HashSet<Transaction> = blk.transactions.iter().cloned().chain([v2]).collect();
                muts.push(("transaction-added:copy-with-other-signatures".into(), Block { header: blk.header, transactions: set, proposer_action: blk.proposer_action }));
            }
        }
        // add a transaction that is valid on the parent's successor state
        {
            let mut w2_tx = None;
            // a fresh faucet is valid off mainnet; on mainnet reuse: none
            if w.net != NetID::Mainnet {
                let t = Transaction {
                    kind: melstructs::TxKind::Faucet,
                    inputs: vec![],
                    outputs: vec![melstructs::CoinData { covhash: w.owners[0].addr_new, value: CoinValue(1), denom: melstructs::Denom::Mel, additional_data: Bytes::new() }],
                    fee: CoinValue(1u128 << 110),
                    covenants: vec![],
                    data: Bytes::from(r.bytes(6)),
                    sigs: vec![],
                };
                w2_tx = Some(t);
            }
            if let Some(t) = w2_tx {
                let mut b = blk.clone();
                b.transactions.insert(t);
                muts.push(("transaction-added".into(), b));
            }
        }
        // proposer action
        let mut b = blk.clone();
        b.proposer_action = match blk.proposer_action {
            None => Some(ProposerAction { fee_multiplier_delta: 0, reward_dest: w.owners[1].addr_new }),
            Some(_) => None,
        };
        muts.push((if blk.proposer_action.is_none() { "action-added" } else { "action-dropped" }.to_string(), b));
        if let Some(a) = blk.proposer_action {
            // the delta is not in the header, its effect is: where the specified step (C17's exact formula) differs for
            // the two deltas, the altered block cannot be the correct successor
            let m = parent.header().fee_multiplier;
            let tip901 = match blk.header.network {
                NetID::Mainnet => ev.height >= 42_700,
                NetID::Testnet => ev.height >= 500,
                _ => true,
            };
            let stepped = |d: i8| crate::mon::c17::expected(m, d, tip901).unwrap_or_default();
            for d2 in [a.fee_multiplier_delta.wrapping_add(1), a.fee_multiplier_delta.wrapping_sub(1)] {
                let mut b = blk.clone();
                b.proposer_action = Some(ProposerAction { fee_multiplier_delta: d2, reward_dest: a.reward_dest });
                let differs = stepped(a.fee_multiplier_delta) != stepped(d2) && m <= (1u128 << 100);
                muts.push((if differs { "action-changed:delta,specified-step-differs" } else { "action-changed:delta" }.to_string(), b));
            }
            let mut b = blk.clone();
            b.proposer_action = Some(ProposerAction { fee_multiplier_delta: a.fee_multiplier_delta, reward_dest: w.owners[2].addr_legacy });
            muts.push(("action-changed:destination".into(), b));
        }
        for (name, b) in muts {
            self.judge(w, &parent, &b, &name, ev.height);
        }
        // a block applied to the wrong parent (its own child state)
        self.judge(w, &child, &blk, "applied-to-wrong-parent", ev.height);
        if self.rep.samples.len() < 3 && blk.transactions.len() >= 2 {
            self.rep.sample(json!({"height": ev.height, "origin": w.origin, "txs": blk.transactions.len(), "action": format!("{:?}", blk.proposer_action), "header": header_json(&blk.header)}));
        }
    }
}

pub fn run(p: &Params) -> Report {
    let total = p.n(200, 6000);
    let mine = p.share(total);
    let mut rng = Rng::new(p.shard_seed() ^ 0xC06);
    let mut mon = C06 { rep: Report::new("C06"), case_seed: 0, r: Rng::new(p.shard_seed() ^ 6), raised_in: None };
    mon.rep.rule = "cases = (parent state, block) pairs: every block of random histories on all network classes (incl. TIP-908) applied to its parent as produced (to_block, HashSet rebuilt) and under one mutation each of: the 11 header fields, a transaction removed / added / altered (data, output value, signature field), the proposer action added / dropped / changed (delta, destination), and the block applied to the wrong parent. Oracle: the statement's own criterion evaluated through the public API - recompute the header from parent.next_unsealed + apply_tx_batch(txs) + seal(action); accept iff the batch is valid and that header equals the declared one; on acceptance the returned state has the declared header. Non-trivial = every mutated case and honest blocks with transactions; distinct by (header hash, mutation)".into();
    if p.only_case.is_none() {
        mon.rep.require("honest blocks accepted", p.n(800, 16000));
        mon.rep.require("rejected: header-field", p.n(8000, 160000));
        mon.rep.require("honest blocks in which a batch after the speed-raising mint followed", p.n(5, 100));
    }
    for case in 0..mine {
        let case_seed = rng.next();
        if let Some(only) = p.only_case {
            if only != case_seed {
                continue;
            }
        }
        mon.case_seed = case_seed;
        let mut w = if case % 4 == 0 { World::fabricated(case_seed, NetID::Custom08, 2 + case % 7, *mon.r.pick(&FEE_MULTS[..5]), 1 << 30) } else { World::random(case_seed) };
        w.profile.hostile = 4;
        w.profile.dependent_permille = 450;
        if case % 4 == 2 {
            // blocks whose DOSC speed is raised by a mint in one of several batches (the producer applies batch after
            // batch, the validator the whole block at once)
            w.profile.fast_mint_permille = 600;
            w.profile.doscmint = 30;
        }
        let blocks = 5 + (case % 8) as usize;
        run_history(&mut w, blocks, &mut [&mut mon]);
    }
    mon.rep
}
