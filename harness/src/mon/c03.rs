//! C03 - batch and block application is order-independent and deterministic.
use std::collections::{HashMap, HashSet};

use melstructs::{Block, Header, ProposerAction, Transaction, TxHash};
use serde_json::json;

use crate::gen::*;
use crate::guard::guarded;
use crate::report::Report;
use crate::rng::{fnv, Rng};
use crate::world::*;
use crate::Params;

/// each worker thread owns its pools, so that shards do not queue behind each other on the 1-thread pool
fn make_pools() -> Vec<(usize, rayon::ThreadPool)> {
    let sizes: Vec<usize> = std::env::var("C03_POOLS").ok().map(|s| s.split(',').filter_map(|x| x.parse().ok()).collect()).unwrap_or_else(|| vec![1, 2, 4, 16]);
    sizes.iter().map(|n| (*n, rayon::ThreadPoolBuilder::new().num_threads(*n).build().unwrap())).collect()
}

type Outcome = Option<Header>; // None = rejected

fn batch_outcome(s: &Unsealed, txs: &[Transaction], action: Option<ProposerAction>, pool: &rayon::ThreadPool) -> Result<Outcome, String> {
    let mut st = s.clone();
    let txs = txs.to_vec();
    guarded(move || {
        pool.install(|| match st.apply_tx_batch(&txs) {
            Ok(()) => Some(st.seal(action).header()),
            Err(_) => None,
        })
    })
    .map_err(|p| p.message)
}

pub fn topo_order(txs: &[Transaction]) -> Vec<Transaction> {
    let hashes: HashMap<TxHash, usize> = txs.iter().enumerate().map(|(i, t)| (t.hash_nosigs(), i)).collect();
    let mut done: HashSet<usize> = HashSet::new();
    let mut out = vec![];
    while out.len() < txs.len() {
        let mut progressed = false;
        for (i, t) in txs.iter().enumerate() {
            if done.contains(&i) {
                continue;
            }
            let ready = t.inputs.iter().all(|inp| match hashes.get(&inp.txhash) {
                Some(j) if *j != i => done.contains(j),
                _ => true,
            });
            if ready {
                done.insert(i);
                out.push(t.clone());
                progressed = true;
            }
        }
        if !progressed {
            // cycle (impossible for real hashes) or duplicates: append the rest as they are
            for (i, t) in txs.iter().enumerate() {
                if !done.contains(&i) {
                    out.push(t.clone());
                }
            }
            break;
        }
    }
    out
}

fn permutations(n: usize) -> Vec<Vec<usize>> {
    fn rec(cur: &mut Vec<usize>, used: &mut Vec<bool>, n: usize, out: &mut Vec<Vec<usize>>) {
        if cur.len() == n {
            out.push(cur.clone());
            return;
        }
        for i in 0..n {
            if !used[i] {
                used[i] = true;
                cur.push(i);
                rec(cur, used, n, out);
                cur.pop();
                used[i] = false;
            }
        }
    }
    let mut out = vec![];
    rec(&mut vec![], &mut vec![false; n], n, &mut out);
    out
}

fn set_class(txs: &[Transaction], labels: &[String]) -> String {
    let dep = crate::mon::c02::has_dependency(txs);
    let hostile = labels.iter().any(|l| l.contains("hostile"));
    let mut seen = HashSet::new();
    let dup = txs.iter().any(|t| !seen.insert(t.hash_nosigs()));
    let stake_spender = labels.iter().any(|l| l.starts_with("spender-of-stake-output"));
    format!("{}{}{}{}", if dep { "dependent" } else { "independent" }, if hostile { ",one-invalid-member" } else { "" }, if dup { ",duplicate-member" } else { "" }, if stake_spender { ",spender-of-a-member-stake's-output" } else { "" })
}

/// A deterministic scenario whose headers are folded into one digest (for cross-process comparison).
pub fn scenario_digest(seed: u64) -> u64 {
    let mut acc: Vec<u8> = vec![];
    for k in 0..6u64 {
        let mut w = World::random(seed ^ (k * 7919));
        w.profile.dependent_permille = 600;
        for _ in 0..5 {
            if w.dead {
                break;
            }
            let (txs, labels) = w.gen_batch();
            if !txs.is_empty() {
                w.apply_batch(txs, labels);
            }
            if w.dead {
                break;
            }
            let a = w.gen_action();
            let ev = w.seal_next(a);
            if let Some(h) = ev.header {
                acc.extend_from_slice(&h.hash().0);
            }
            // apply_block on the sealed block with a rebuilt HashSet
            if let (Some(p), Some(c)) = (&w.prev_tip, &w.tip) {
                let b = c.to_block();
                let b = Block { header: b.header, transactions: b.transactions.iter().cloned().collect(), proposer_action: b.proposer_action };
                if let Ok(s) = p.apply_block(&b) {
                    acc.extend_from_slice(&s.header().hash().0);
                } else {
                    acc.push(0xee);
                }
            }
        }
    }
    fnv(&acc)
}

pub fn run(p: &Params) -> Report {
    let mut rep = Report::new("C03");
    rep.rule = "cases = (state, set of transactions, proposer action): sets of 1-5 members under ALL permutations (every permutation on every rayon pool of 1/2/4/16 threads up to 4 members, on the 1-thread pool and a rotating second pool for 5), sets of up to 16 (thorough: 40) members under 10 (thorough: 24) random permutations; members independent, chained, DAG-shaped, with one invalid member, with a duplicate; one set in five is a single invalid transaction with a rule-exempt part (a new-token output next to an unbalanced one), and sets of one or two members run four times per (order, pool). All outcomes (accepted?, sealed header) must be equal, and equal to applying the members one at a time in dependency order; the block built from the outcome is applied to the parent 6 times with its HashSet rebuilt (fresh iteration order) and must give the same header every time; one block of 600 (thorough: 1400) transactions half of which spend the other half's outputs is applied 6 times; every set is also evaluated on a shadow chain (same coins, other headers) before and after the first chain has validated it, with equal results required; a seeded scenario is re-run in 2 fresh processes and must give the same digest. Non-trivial = set with >= 2 members; distinct by member hashes. The thorough tier repeats the workload under ThreadSanitizer".into();
    let total = p.n(120, 4000);
    let mine = p.share(total);
    let mut rng = Rng::new(p.shard_seed() ^ 0xC03);
    let pools = make_pools();
    for case in 0..mine {
        let case_seed = rng.next();
        if let Some(only) = p.only_case {
            if only != case_seed {
                continue;
            }
        }
        let mut w = World::random(case_seed);
        w.profile.dependent_permille = 700;
        w.profile.hostile = 12;
        if case % 4 == 1 {
            // sets with several valid ERG mints (their demonstrated speeds are reduced to a maximum)
            w.profile.doscmint = 40;
        }
        if case % 4 == 2 {
            w.profile.stake = 30;
        }
        w.profile.max_batch = if case % 4 == 0 { if p.thorough { 40 } else { 16 } } else { 5 };
        let mut r = Rng::new(case_seed ^ 3);
        let blocks = 2 + r.usize(4);
        // a shadow chain: the same coins and history, but another header at the starting height (and so at every later
        // one). It is fed the same sets. A set's outcome on the shadow must not depend on what this process has done in
        // between - in particular not on having validated the same transactions on the first chain
        let mut shadow: Option<Unsealed> = w.tip.as_ref().and_then(|tip| {
            let mut blk = tip.to_block();
            blk.header.fee_pool = melstructs::CoinValue(blk.header.fee_pool.0 ^ 1);
            let stakes = tip.raw_stakes();
            let db = w.db.clone();
            guarded(move || melstf::SealedState::from_block(&blk, &stakes, &db).next_unsealed()).ok()
        });
        for _ in 0..blocks {
            if w.dead {
                break;
            }
            let (mut txs, mut labels) = w.gen_batch();
            if txs.is_empty() {
                let ev = w.seal_next(None);
                if ev.panic.is_some() {
                    break;
                }
                continue;
            }
            if r.chance(1, 5) {
                // a single transaction that breaks exactly one rule while another rule exempts part of it (a new-token
                // output next to an unbalanced one): refused - on every thread, in every run, however its fields hash
                if let Some(mut t) = w.gen_normal() {
                    let l = w.mutate_kind(&mut t, 16);
                    txs = vec![t];
                    labels = vec![format!("normal+hostile:{}", l)];
                    rep.count("single invalid transactions with a rule-exempt part, executed repeatedly");
                }
            }
            if r.chance(1, 12) {
                // duplicate member
                let d = txs[r.usize(txs.len())].clone();
                txs.push(d);
                labels.push("duplicate".into());
            }
            // a member spending an output of a stake transaction of the same set (usually a change output, index >= 1,
            // sometimes the staked coin itself): whatever the lock rule makes of it, it must make the same of it for
            // the batch and for one-at-a-time application
            if r.chance(1, 2) {
                if let Some(si) = (0..txs.len()).find(|i| txs[*i].kind == melstructs::TxKind::Stake && !labels[*i].contains("hostile")) {
                    let stx = txs[si].clone();
                    let k = if stx.outputs.len() > 1 && r.chance(3, 4) { 1 + r.usize(stx.outputs.len() - 1) } else { 0 };
                    let coin = (stx.output_coinid(k as u8), melstructs::CoinDataHeight { coin_data: stx.outputs[k].clone(), height: melstructs::BlockHeight(w.height()) });
                    let used: HashSet<melstructs::CoinID> = txs.iter().flat_map(|t| t.inputs.iter().copied()).collect();
                    let mut ins = vec![];
                    if coin.1.coin_data.denom != melstructs::Denom::Mel || coin.1.coin_data.value.0 == 0 {
                        if let Some(mel) = w.spendable().into_iter().find(|(i, c)| c.coin_data.denom == melstructs::Denom::Mel && !used.contains(i) && c.coin_data.value.0 <= MAX_COINVAL && c.coin_data.value.0 > 0) {
                            ins.push(mel);
                        }
                    }
                    let have_mel = !ins.is_empty() || coin.1.coin_data.denom == melstructs::Denom::Mel;
                    ins.push(coin);
                    if have_mel && w.unlock.contains_key(&stx.outputs[k].covhash) {
                        w.learn_tx(&stx);
                        if let Some(sp) = w.complete(melstructs::TxKind::Normal, ins, vec![], vec![], 0) {
                            txs.push(sp);
                            labels.push(format!("spender-of-stake-output-{}", if k == 0 { "0" } else { "1+" }));
                            rep.count(&format!("sets with a spender of output {} of a member stake transaction", if k == 0 { "0" } else { ">= 1" }));
                        }
                    }
                }
            }
            let action = w.gen_action();
            let s = w.cur.clone();
            let cls = set_class(&txs, &labels);
            let n = txs.len();
            let perms: Vec<Vec<usize>> = if n <= 5 {
                permutations(n)
            } else {
                (0..if p.thorough { 24 } else { 10 })
                    .map(|k| {
                        let mut v: Vec<usize> = (0..n).collect();
                        if k == 1 {
                            v.reverse();
                        } else if k > 1 {
                            r.shuffle(&mut v);
                        }
                        v
                    })
                    .collect()
            };
            let shadow_before = shadow.as_ref().map(|sh| batch_outcome(sh, &txs, action, &pools[0].1));
            let t_exec = std::time::Instant::now();
            let mut outcomes: Vec<(usize, usize, Outcome)> = vec![];
            let mut panicked = false;
            for (pi, perm) in perms.iter().enumerate() {
                let ordered: Vec<Transaction> = perm.iter().map(|i| txs[*i].clone()).collect();
                for (pn, pool) in pools.iter() {
                    // all pool sizes for small sets; for big sets rotate
                    if n > 4 && (pi + pn) % 4 != 0 && *pn != 1 {
                        continue;
                    }
                    // small sets are cheap: the same order on the same pool several times as well
                    for _rep in 0..if n <= 2 { 4 } else { 1 } {
                        rep.eval();
                        rep.count("(permutation, pool) executions");
                        match batch_outcome(&s, &ordered, action, pool) {
                            Ok(o) => outcomes.push((pi, *pn, o)),
                            Err(_) => {
                                panicked = true;
                            }
                        }
                    }
                }
            }
            if std::env::var("MELVERIF_DEBUG").is_ok() {
                eprintln!("DEBUG set n={} perms={} execs={} took {:?}", n, perms.len(), outcomes.len(), t_exec.elapsed());
            }
            if panicked {
                rep.count("sets on which apply/seal panicked (left to C09)");
                break;
            }
            let mut fp = vec![];
            let mut hs: Vec<TxHash> = txs.iter().map(|t| t.hash_nosigs()).collect();
            hs.sort();
            for h in &hs {
                fp.extend_from_slice(&h.0 .0);
            }
            if n >= 2 {
                rep.nontrivial(fnv(&fp));
            }
            let first = outcomes[0].2;
            let distinct: HashSet<Option<[u8; 32]>> = outcomes.iter().map(|o| o.2.map(|h| h.hash().0)).collect();
            rep.count(&format!("sets: {}", cls));
            if first.is_some() {
                rep.count("sets accepted");
            } else {
                rep.count("sets rejected");
            }
            let wit = |extra: serde_json::Value| json!({"case_seed": case_seed, "origin": w.origin, "height": w.height(), "labels": labels, "txs_hex": txs.iter().map(tx_hex).collect::<Vec<_>>(), "action": format!("{:?}", action), "detail": extra});
            if distinct.len() > 1 {
                let (a, b) = {
                    let other = outcomes.iter().find(|o| o.2.map(|h| h.hash().0) != first.map(|h| h.hash().0)).unwrap();
                    (outcomes[0].clone(), other.clone())
                };
                let same_perm_diff_pool = outcomes.iter().any(|x| outcomes.iter().any(|y| x.0 == y.0 && x.1 != y.1 && x.2.map(|h| h.hash().0) != y.2.map(|h| h.hash().0)));
                let same_perm_same_pool = outcomes.iter().enumerate().any(|(i, x)| outcomes.iter().enumerate().any(|(j, y)| i != j && x.0 == y.0 && x.1 == y.1 && x.2.map(|h| h.hash().0) != y.2.map(|h| h.hash().0)));
                let kind = if same_perm_same_pool {
                    "repeat-outcome-differs"
                } else if same_perm_diff_pool {
                    "schedule-outcome-differs"
                } else {
                    "perm-outcome-differs"
                };
                rep.violate(
                    &format!("C03|{}|apply_tx_batch|{}", kind, cls),
                    format!("{} distinct outcomes over {} executions of one set", distinct.len(), outcomes.len()),
                    wit(json!({"outcome_a": {"perm": perms[a.0], "pool": a.1, "header": a.2.as_ref().map(header_json)}, "outcome_b": {"perm": perms[b.0], "pool": b.1, "header": b.2.as_ref().map(header_json)}})),
                );
                break;
            }
            // one at a time, in dependency order
            let seq = topo_order(&txs);
            let mut st = s.clone();
            let mut all_ok = true;
            for t in &seq {
                rep.eval();
                match guarded(|| st.apply_tx(t)) {
                    Ok(Ok(())) => {}
                    Ok(Err(_)) => all_ok = false,
                    Err(_) => {
                        all_ok = false;
                        panicked = true;
                    }
                }
            }
            if panicked {
                break;
            }
            rep.count("sequential replays");
            let seq_out: Outcome = if all_ok { guarded(move || st.seal(action).header()).ok() } else { None };
            match (first, seq_out) {
                (Some(a), Some(b)) if a != b => {
                    rep.violate(&format!("C03|batch-differs-from-sequential|apply_tx_batch|{}", cls), "applying the set as one batch and one transaction at a time (dependency order) give different headers".into(), wit(json!({"batch": header_json(&a), "sequential": header_json(&b)})));
                    break;
                }
                (Some(_), None) => {
                    rep.violate(&format!("C03|batch-accepts-what-sequential-rejects|apply_tx_batch|{}", cls), "the batch was accepted although one of its members is rejected when the members are applied one at a time in dependency order".into(), wit(json!(null)));
                    break;
                }
                (None, Some(_)) => {
                    rep.violate(&format!("C03|batch-rejects-what-sequential-accepts|apply_tx_batch|{}", cls), "every member is accepted one at a time in dependency order but the batch is rejected".into(), wit(json!(null)));
                    break;
                }
                _ => {}
            }
            // the shadow chain again, after all of the above ran in this process
            if let (Some(sh), Some(Ok(before))) = (shadow.as_ref(), shadow_before.as_ref()) {
                rep.eval();
                rep.count("sets re-evaluated on a shadow chain after the first chain had validated them");
                if txs.iter().any(|t| t.kind == melstructs::TxKind::DoscMint) {
                    rep.count("sets with a mint re-evaluated on a shadow chain");
                }
                if let Ok(after) = batch_outcome(sh, &txs, action, &pools[0].1) {
                    if after.map(|h| h.hash().0) != before.map(|h| h.hash().0) {
                        rep.violate(
                            &format!("C03|outcome-depends-on-earlier-work-of-the-process|apply_tx_batch|{}", cls),
                            "the same set applied to the same state gave another outcome after this process had validated the set on another chain".into(),
                            wit(json!({"shadow_before": before.as_ref().map(header_json), "shadow_after": after.as_ref().map(header_json)})),
                        );
                        break;
                    }
                }
            }
            // the shadow follows: same set (whatever it makes of it), same action
            if let Some(sh) = shadow.take() {
                let txs2 = txs.clone();
                shadow = guarded(move || {
                    let mut sh = sh;
                    let _ = sh.apply_tx_batch(&txs2);
                    sh.seal(action).next_unsealed()
                })
                .ok();
            }
            // commit the set to the world, seal, and replay the block against its parent with fresh HashSets
            let ev = w.apply_batch(txs.clone(), labels.clone());
            let _ = ev;
            if w.dead {
                break;
            }
            let sev = w.seal_next(action);
            if sev.panic.is_some() || w.dead {
                break;
            }
            if let (Some(parent), Some(child)) = (w.prev_tip.clone(), w.tip.clone()) {
                let blk = child.to_block();
                let mut hdrs: HashSet<Option<[u8; 32]>> = HashSet::new();
                for _ in 0..6 {
                    rep.eval();
                    rep.count("apply_block replays with rebuilt HashSet");
                    let b = Block { header: blk.header, transactions: blk.transactions.iter().cloned().collect(), proposer_action: blk.proposer_action };
                    let pp = parent.clone();
                    let o = guarded(move || pp.apply_block(&b).ok().map(|s| s.header().hash().0));
                    match o {
                        Ok(o) => {
                            hdrs.insert(o);
                        }
                        Err(_) => {
                            hdrs.insert(Some([0xee; 32]));
                        }
                    }
                }
                if hdrs.len() > 1 || hdrs.iter().next().cloned().flatten() != Some(child.header().hash().0) {
                    rep.violate(&format!("C03|block-result-varies|apply_block|{}", cls), format!("applying the same block {} times gave {} different results (or not the sealed header)", 6, hdrs.len()), json!({"case_seed": case_seed, "origin": w.origin, "height": sev.height, "block_txs_hex": sev.block_txs.iter().map(tx_hex).collect::<Vec<_>>()}));
                }
            }
            if rep.samples.len() < 4 && n >= 3 {
                rep.sample(json!({"set": labels, "class": cls, "permutations": perms.len(), "pools": [1, 2, 4, 16], "distinct_outcomes": distinct.len(), "accepted": first.is_some()}));
            }
        }
    }
    // a large block: hundreds of transactions half of which spend outputs created by the other half
    if p.shard == 1 % p.nshards && p.only_case.is_none() {
        let n_pairs = if p.thorough { 700 } else { 300 };
        let mut w = World::fabricated(p.seed ^ 0xB16, melstructs::NetID::Custom02, 50, 0, 0);
        let at = addr_of(&always_true_cov());
        let mut txs: Vec<Transaction> = vec![];
        for i in 0..n_pairs {
            let f = Transaction {
                kind: melstructs::TxKind::Faucet,
                inputs: vec![],
                outputs: vec![melstructs::CoinData { covhash: at, value: melstructs::CoinValue(1000 + i as u128), denom: melstructs::Denom::Mel, additional_data: bytes::Bytes::new() }],
                fee: melstructs::CoinValue(0),
                covenants: vec![],
                data: bytes::Bytes::from((i as u64).to_be_bytes().to_vec()),
                sigs: vec![],
            };
            let child = Transaction {
                kind: melstructs::TxKind::Normal,
                inputs: vec![f.output_coinid(0)],
                outputs: vec![melstructs::CoinData { covhash: at, value: melstructs::CoinValue(1000 + i as u128), denom: melstructs::Denom::Mel, additional_data: bytes::Bytes::new() }],
                fee: melstructs::CoinValue(0),
                covenants: vec![bytes::Bytes::from(always_true_cov())],
                data: bytes::Bytes::new(),
                sigs: vec![],
            };
            txs.push(f);
            txs.push(child);
        }
        let labels = vec!["large-block".to_string(); txs.len()];
        let ev = w.apply_batch(txs.clone(), labels);
        rep.eval();
        if !ev.accepted() {
            rep.violate("C03|batch-rejects-what-sequential-accepts|apply_tx_batch|large-dependent-batch", "a batch of faucet/child pairs in dependency order was rejected".into(), json!({"pairs": n_pairs}));
        } else {
            let sev = w.seal_next(None);
            if let (None, Some(parent), Some(child)) = (sev.panic, w.prev_tip.clone(), w.tip.clone()) {
                let blk = child.to_block();
                let mut outcomes: HashSet<Option<[u8; 32]>> = HashSet::new();
                for _ in 0..6 {
                    rep.eval();
                    rep.count("apply_block replays of a large block");
                    let b = Block { header: blk.header, transactions: blk.transactions.iter().cloned().collect(), proposer_action: blk.proposer_action };
                    let pp = parent.clone();
                    outcomes.insert(guarded(move || pp.apply_block(&b).ok().map(|s| s.header().hash().0)).unwrap_or(Some([0xee; 32])));
                }
                rep.nontrivial(fnv(&blk.header.hash().0));
                rep.sample(json!({"large_block": {"transactions": txs.len(), "in_block_spends": n_pairs, "replays": 6, "distinct_results": outcomes.len()}}));
                if outcomes.len() != 1 || outcomes.iter().next().cloned().flatten() != Some(child.header().hash().0) {
                    rep.violate("C03|block-result-varies|apply_block|large-block-with-in-block-spends", format!("a valid block of {} transactions gave {} different results over 6 applications (or was rejected)", txs.len(), outcomes.len()), json!({"transactions": txs.len(), "accepted_results": outcomes.iter().filter(|o| o.is_some()).count()}));
                }
            }
        }
    }
    // cross-process determinism
    if p.shard == 0 && p.only_case.is_none() {
        let seed = p.seed ^ 0xD16E57;
        let mine = scenario_digest(seed);
        let exe = std::env::current_exe().ok();
        let mut others = vec![];
        if let Some(exe) = exe {
            for _ in 0..2 {
                if let Ok(out) = std::process::Command::new(&exe).arg("C03-digest").arg("--seed").arg(seed.to_string()).output() {
                    let s = String::from_utf8_lossy(&out.stdout);
                    if let Some(d) = s.lines().find_map(|l| l.strip_prefix("DIGEST ")) {
                        others.push(d.trim().to_string());
                    }
                }
            }
        }
        rep.eval();
        rep.count_n("fresh processes compared", others.len() as u64);
        rep.sample(json!({"cross_process_digest": format!("{:016x}", mine), "fresh_processes": others}));
        if others.iter().any(|d| *d != format!("{:016x}", mine)) {
            rep.violate("C03|process-dependent-result|scenario|digest", "the same seeded scenario produced different headers in different processes".into(), json!({"mine": format!("{:016x}", mine), "others": others, "seed": seed}));
        }
        rep.require("fresh processes compared", 2);
    }
    if p.only_case.is_none() {
        rep.require("(permutation, pool) executions", p.n(5000, 150000));
        rep.require("sets accepted", p.n(100, 3000));
        rep.require("single invalid transactions with a rule-exempt part, executed repeatedly", p.n(20, 1000));
        rep.require("apply_block replays with rebuilt HashSet", p.n(500, 15000));
        rep.require("sets with a spender of output >= 1 of a member stake transaction", p.n(3, 100));
    }
    rep
}
