pub mod c02;

use crate::report::Report;
use crate::Params;

pub fn run(p: &Params) -> Report {
    match p.property.as_str() {
        "C02" => c02::run(p),
        other => {
            let mut r = Report::new(other);
            r.note("no such monitor");
            r
        }
    }
}
