pub mod c01;
pub mod c02;
pub mod c03;
pub mod c04;
pub mod c05;
pub mod c06;
pub mod c07;
pub mod c08;
pub mod c09;
pub mod c10;
pub mod c11;
pub mod c12;
pub mod c13;
pub mod c14;
pub mod c15;
pub mod c16;
pub mod c17;
pub mod c18;
pub mod c19;
pub mod c20;

use crate::report::Report;
use crate::Params;

pub fn run(p: &Params) -> Report {
    match p.property.as_str() {
        "C01" => c01::run(p),
        "C02" => c02::run(p),
        "C03" => c03::run(p),
        "C04" => c04::run(p),
        "C05" => c05::run(p),
        "C06" => c06::run(p),
        "C07" => c07::run(p),
        "C08" => c08::run(p),
        "C09" => c09::run(p),
        "C10" => c10::run(p),
        "C11" => c11::run(p),
        "C12" => c12::run(p),
        "C13" => c13::run(p),
        "C14" => c14::run(p),
        "C15" => c15::run(p),
        "C16" => c16::run(p),
        "C17" => c17::run(p),
        "C18" => c18::run(p),
        "C19" => c19::run(p),
        "C20" => c20::run(p),
        other => {
            let mut r = Report::new(other);
            r.note("no such monitor");
            r
        }
    }
}
