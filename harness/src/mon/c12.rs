//! C12 - covenant bytecode encoding is a bijection.
use melvm::opcode::OpCode;
use melvm::Covenant;
use serde_json::json;

use crate::conv::*;
use crate::guard::{guarded, msg_class, site};
use crate::refvm::{self, Op};
use crate::report::Report;
use crate::rng::{fnv, Rng};
use crate::Params;

fn check_bytes(rep: &mut Report, b: &[u8], class: &str, nontrivial: bool) {
    rep.eval();
    let r = guarded(|| Covenant::from_bytes(b));
    let refd = refvm::decode(b);
    let imp = match r {
        Err(p) => {
            rep.violate(
                &format!("C12|decode-panics|Covenant::from_bytes|{}|{}", class, msg_class(&p.message)),
                format!("from_bytes panicked at {}: {}", site(&p.location), p.message),
                json!({"bytes": hex::encode(b)}),
            );
            return;
        }
        Ok(x) => x,
    };
    match (&imp, &refd) {
        (Ok(_), None) => {
            rep.violate(
                &format!("C12|decodes-what-spec-rejects|Covenant::from_bytes|{}", class),
                "implementation decodes a string the reference decoder rejects".into(),
                json!({"bytes": hex::encode(b)}),
            );
        }
        (Err(_), Some(ops)) => {
            rep.violate(
                &format!("C12|rejects-what-spec-decodes|Covenant::from_bytes|{}", class),
                "implementation rejects a string the reference decoder accepts".into(),
                json!({"bytes": hex::encode(b), "reference": ops_brief(ops)}),
            );
        }
        _ => {}
    }
    if let Ok(cov) = imp {
        rep.count("decodable");
        if nontrivial {
            rep.nontrivial(fnv(b));
        }
        let re = guarded(|| cov.to_bytes());
        match re {
            Err(p) => {
                rep.violate(
                    &format!("C12|encode-panics|Covenant::to_bytes|{}", class),
                    format!("to_bytes panicked on a decoded program: {}", p.message),
                    json!({"bytes": hex::encode(b)}),
                );
                return;
            }
            Ok(enc) => {
                if enc.as_ref() != b {
                    rep.violate(
                        &format!("C12|reencode-differs|Covenant::to_bytes|{}", class),
                        "decode(b) re-encodes to different bytes".into(),
                        json!({"bytes": hex::encode(b), "reencoded": hex::encode(&enc)}),
                    );
                }
            }
        }
        let ops = cov.to_ops();
        if let Some(rops) = &refd {
            let mine: Vec<Op> = ops.iter().map(op_from_impl).collect();
            if &mine != rops {
                rep.violate(
                    &format!("C12|program-differs-from-spec|Covenant::from_bytes|{}", class),
                    "decoded instruction list differs from the reference decoder's".into(),
                    json!({"bytes": hex::encode(b), "impl": ops_brief(&mine), "reference": ops_brief(rops)}),
                );
            }
            // weight: bytes vs ops vs reference (nesting is kept shallow in this monitor)
            let depth = rops.iter().filter(|o| matches!(o, Op::Loop(_, _))).count();
            if depth <= 10 {
                let w_bytes = melvm::covenant_weight_from_bytes(b);
                let w_ops = Covenant::from_ops(&ops).weight();
                let w_ref = refvm::weight(rops);
                if w_bytes != w_ops || w_bytes != w_ref {
                    rep.violate(
                        &format!("C12|weight-differs|Covenant::weight|{}", class),
                        format!("weight from bytes {} / from ops {} / reference {}", w_bytes, w_ops, w_ref),
                        json!({"bytes": hex::encode(b)}),
                    );
                }
            }
        }
        let again = Covenant::from_ops(&ops);
        if again != cov || again.hash() != cov.hash() || cov.hash().0 .0 != *blake3::hash(b).as_bytes() {
            rep.violate(
                &format!("C12|identity-differs|Covenant::hash|{}", class),
                "program rebuilt from its instructions differs in equality or hash".into(),
                json!({"bytes": hex::encode(b)}),
            );
        }
    } else {
        rep.count("undecodable");
    }
}

fn check_ops(rep: &mut Report, ops: &[Op], class: &str) {
    rep.eval();
    let enc_ref = refvm::encode(ops);
    let iops: Vec<OpCode> = ops.iter().map(op_to_impl).collect();
    let cov = Covenant::from_ops(&iops);
    let r = guarded(|| cov.to_bytes());
    match (r, enc_ref) {
        (Err(_), None) => {
            rep.count("unrepresentable operand (PushB > 255 bytes): encoder refuses, not counted");
        }
        (Err(p), Some(_)) => {
            rep.violate(
                &format!("C12|encode-panics|Covenant::to_bytes|{}", class),
                format!("to_bytes panicked on a representable program: {}", p.message),
                json!({"ops": ops_brief(ops)}),
            );
        }
        (Ok(b), None) => {
            rep.violate(
                &format!("C12|encodes-unrepresentable|Covenant::to_bytes|{}", class),
                "encoder produced bytes for a program the reference calls unrepresentable".into(),
                json!({"ops": ops_brief(ops), "bytes": hex::encode(&b)}),
            );
        }
        (Ok(b), Some(rb)) => {
            rep.nontrivial(fnv(&rb));
            if b.as_ref() != rb.as_slice() {
                rep.violate(
                    &format!("C12|encoding-differs-from-spec|Covenant::to_bytes|{}", class),
                    "encoding differs from the reference encoder".into(),
                    json!({"ops": ops_brief(ops), "impl": hex::encode(&b), "reference": hex::encode(&rb)}),
                );
            }
            match Covenant::from_bytes(&b) {
                Ok(back) => {
                    let back_ops: Vec<Op> = back.to_ops().iter().map(op_from_impl).collect();
                    // PushIC and PushI are distinct instructions; a round trip must give back the same list
                    if back_ops != ops {
                        rep.violate(
                            &format!("C12|roundtrip-differs|Covenant::from_bytes|{}", class),
                            "decode(encode(p)) != p".into(),
                            json!({"ops": ops_brief(ops), "back": ops_brief(&back_ops)}),
                        );
                    }
                }
                Err(e) => {
                    rep.violate(
                        &format!("C12|roundtrip-fails|Covenant::from_bytes|{}", class),
                        format!("encode(p) does not decode: {:?}", e),
                        json!({"ops": ops_brief(ops), "bytes": hex::encode(&b)}),
                    );
                }
            }
        }
    }
}

pub fn random_op(r: &mut Rng, allow_long_pushb: bool) -> Op {
    match r.below(52) {
        0 => Op::Noop,
        1 => Op::Add,
        2 => Op::Sub,
        3 => Op::Mul,
        4 => Op::Div,
        5 => Op::Rem,
        6 => Op::Exp(r.next() as u8),
        7 => Op::And,
        8 => Op::Or,
        9 => Op::Xor,
        10 => Op::Not,
        11 => Op::Eql,
        12 => Op::Lt,
        13 => Op::Gt,
        14 => Op::Shl,
        15 => Op::Shr,
        16 => Op::Hash(r.next() as u16),
        17 => Op::SigEOk(r.next() as u16),
        18 => Op::Store,
        19 => Op::Load,
        20 => Op::StoreImm(r.next() as u16),
        21 => Op::LoadImm(r.next() as u16),
        22 => Op::VRef,
        23 => Op::VAppend,
        24 => Op::VEmpty,
        25 => Op::VLength,
        26 => Op::VSlice,
        27 => Op::VSet,
        28 => Op::VPush,
        29 => Op::VCons,
        30 => Op::BRef,
        31 => Op::BAppend,
        32 => Op::BEmpty,
        33 => Op::BLength,
        34 => Op::BSlice,
        35 => Op::BSet,
        36 => Op::BPush,
        37 => Op::BCons,
        38 => Op::Bez(r.below(6) as u16),
        39 => Op::Bnz(r.below(6) as u16),
        40 => Op::Jmp(if r.chance(1, 10) { r.next() as u16 } else { r.below(4) as u16 }),
        41 => Op::Loop(r.below(5) as u16, r.below(6) as u16),
        42 => Op::ItoB,
        43 => Op::BtoI,
        44 => Op::TypeQ,
        45 | 46 => {
            let n = match r.below(6) {
                0 => 0,
                1 => 1,
                2 => 255,
                3 if allow_long_pushb => 256 + r.usize(10),
                _ => r.usize(40),
            };
            Op::PushB(r.bytes(n))
        }
        47 | 48 => Op::PushI(r.arr32()),
        49 | 50 => {
            let mut a = [0u8; 32];
            let n = r.usize(33);
            let b = r.bytes(n);
            a[32 - n..].copy_from_slice(&b);
            Op::PushIC(a)
        }
        _ => Op::Dup,
    }
}

pub fn run(p: &Params) -> Report {
    let mut rep = Report::new("C12");
    rep.rule = "cases = (a) every byte string of length 0-3, enumerated; (b) every opcode byte with every operand-length class, every truncation point and trailing bytes; (c) random/mutated longer strings built from valid encodings; (d) random instruction lists. For each: decodability and decoded program agree with the reference decoder, decode-encode and encode-decode round trips are identities, weight/hash from bytes = from instructions = reference. Non-trivial = decodable string or representable program; distinct by content".into();
    // (a) exhaustive up to 3 bytes, split over shards by first byte (length-3 strings dominate)
    // under Miri (thorough tier's interpreter stage) only the strings of length <= 1 and a token share of the rest
    let miri = cfg!(miri);
    let exhaustive3 = !miri;
    if p.shard == 0 {
        check_bytes(&mut rep, &[], "len0", true);
        for a in 0..=255u8 {
            check_bytes(&mut rep, &[a], "len1", true);
            if miri {
                continue;
            }
            for b in 0..=255u8 {
                check_bytes(&mut rep, &[a, b], "len2", true);
            }
        }
    }
    if exhaustive3 {
        for a in 0..=255u32 {
            if (a as u64) % p.nshards != p.shard {
                continue;
            }
            for b in 0..=255u8 {
                for c in 0..=255u8 {
                    // fingerprints only for the decodable ones (counted inside)
                    check_bytes(&mut rep, &[a as u8, b, c], "len3", true);
                }
            }
        }
        rep.count("exhaustive: all strings of length <= 3 (this shard's share)");
    }
    let mut r = Rng::new(p.shard_seed() ^ 0xC12);
    // (b) operand classes / truncation / trailing
    if p.shard == 0 && !miri {
        for opc in 0..=255u8 {
            for arglen in [0usize, 1, 2, 3, 4, 5, 31, 32, 33, 34, 64, 255, 256, 257] {
                for first in [0u8, 1, 0x20, 33, 0xff] {
                    let mut b = vec![opc];
                    if arglen > 0 {
                        b.push(first);
                        b.extend(r.bytes(arglen - 1));
                    }
                    check_bytes(&mut rep, &b, "opcode-x-operand-class", true);
                    let mut t = b.clone();
                    t.push(0x09);
                    check_bytes(&mut rep, &t, "trailing-noop", true);
                }
            }
        }
        // PushIC canonical / non-canonical, every length
        for n in 0..=40u8 {
            for lead in [0u8, 1, 0x80] {
                let mut b = vec![0xf2, n];
                if n > 0 {
                    b.push(lead);
                    b.extend(r.bytes(n as usize - 1));
                }
                check_bytes(&mut rep, &b, "pushic-length-class", true);
                for cut in 0..b.len() {
                    check_bytes(&mut rep, &b[..cut], "truncated", false);
                }
            }
        }
        // PushB every length with exact / short / long body
        for n in [0u8, 1, 2, 31, 32, 33, 254, 255] {
            for delta in [-1i32, 0, 1] {
                let body = (n as i32 + delta).max(0) as usize;
                let mut b = vec![0xf0, n];
                b.extend(r.bytes(body));
                check_bytes(&mut rep, &b, "pushb-length-class", true);
            }
        }
    }
    // (c) random / mutated longer strings
    let n_c = if miri { 400 } else { p.share(p.n(1_000_000, 30_000_000)) };
    for _ in 0..n_c {
        let n_ops = 1 + r.usize(12);
        let ops: Vec<Op> = (0..n_ops).map(|_| random_op(&mut r, false)).collect();
        let mut b = refvm::encode(&ops).unwrap();
        match r.below(5) {
            0 => {}
            1 => {
                if !b.is_empty() {
                    let i = r.usize(b.len());
                    b[i] = r.next() as u8;
                }
            }
            2 => {
                let cut = r.usize(b.len() + 1);
                b.truncate(cut);
            }
            3 => {
                let extra = r.bytes(1 + r.clone().usize(3));
                b.extend(extra);
            }
            _ => {
                if !b.is_empty() {
                    let i = r.usize(b.len());
                    b.remove(i);
                }
            }
        }
        check_bytes(&mut rep, &b, "random-mutated", true);
    }
    // (d) random instruction lists
    let n_d = if miri { 400 } else { p.share(p.n(300_000, 8_000_000)) };
    for k in 0..n_d {
        let n_ops = r.usize(14);
        let ops: Vec<Op> = (0..n_ops).map(|_| random_op(&mut r, true)).collect();
        check_ops(&mut rep, &ops, "random-instruction-list");
        if k < 3 && p.shard == 0 {
            rep.sample(json!({"instruction_list": ops_brief(&ops), "encoded": refvm::encode(&ops).map(hex::encode)}));
        }
    }
    // (e) loop-heavy programs: weight from bytes / from instructions / reference on nested, clipped and overrunning bodies
    let n_e = if miri { 200 } else { p.share(p.n(400_000, 10_000_000)) };
    for _ in 0..n_e {
        let n_ops = 1 + r.usize(28);
        let ops: Vec<Op> = (0..n_ops)
            .map(|i| match r.below(5) {
                0 | 1 => {
                    let remaining = (n_ops - i - 1) as u64;
                    let len = match r.below(5) {
                        0 => 0,
                        1 => remaining,
                        2 => remaining + 1 + r.below(3),
                        3 => 65535,
                        _ => r.below(remaining + 2),
                    };
                    Op::Loop(*r.pick(&[0u16, 1, 2, 3, 7, 65535]), len as u16)
                }
                2 => Op::Noop,
                3 => Op::Hash(r.next() as u16),
                _ => Op::Mul,
            })
            .collect();
        rep.eval();
        let b = refvm::encode(&ops).unwrap();
        let iops: Vec<OpCode> = ops.iter().map(op_to_impl).collect();
        let w_ops = Covenant::from_ops(&iops).weight();
        let w_bytes = melvm::covenant_weight_from_bytes(&b);
        let w_ref = refvm::weight(&ops);
        rep.nontrivial(fnv(&b));
        rep.count("loop-heavy weight comparisons");
        if w_ops != w_ref || w_bytes != w_ref {
            rep.violate(
                "C12|weight-differs|Covenant::weight|loop-heavy",
                format!("weight from bytes {} / from ops {} / reference {}", w_bytes, w_ops, w_ref),
                json!({"ops": ops_brief(&ops), "bytes": hex::encode(&b)}),
            );
        }
    }
    // (f) long programs: instruction counts around every width a counter or an operand could have (2^8, 2^16, 2^17) and
    // beyond - "consumes the whole input" and both round trips must hold however long the program is
    let n_f = if miri { 0 } else { p.n(3, 40) as usize };
    let mut lens: Vec<usize> = vec![];
    if p.shard == 0 && !miri {
        lens.extend([254usize, 255, 256, 257, 65534, 65535, 65536, 65537, 65538, 131071, 131072, 131073]);
    }
    for _ in 0..n_f {
        lens.push(match r.below(4) {
            0 => 65530 + r.usize(16),
            1 => 65537 + r.usize(70000),
            2 => 200 + r.usize(200),
            _ => 1000 + r.usize(64000),
        });
    }
    for (k, n_ops) in lens.into_iter().enumerate() {
        let filler = r.below(3);
        let ops: Vec<Op> = (0..n_ops)
            .map(|i| {
                if filler == 0 {
                    // a program whose tail matters: the last instruction decides the result
                    if i == 0 { Op::PushI({ let mut a = [0u8; 32]; a[31] = 1; a }) } else if i + 1 == n_ops { Op::PushI([0u8; 32]) } else { Op::Noop }
                } else {
                    match random_op(&mut r, false) {
                        Op::Loop(_, _) => Op::Noop,
                        Op::PushB(b) if b.len() > 8 => Op::Dup,
                        o => o,
                    }
                }
            })
            .collect();
        check_ops(&mut rep, &ops, "long-program");
        let b = refvm::encode(&ops).unwrap();
        check_bytes(&mut rep, &b, "long-program", true);
        rep.count("long programs");
        if n_ops > 65536 {
            rep.count("long programs beyond 65536 instructions");
        }
        // a trailing byte that is not an instruction must still make the whole string undecodable
        let mut t = b.clone();
        t.push(0x08);
        check_bytes(&mut rep, &t, "long-program+unassigned-trailing-byte", false);
        if k == 0 && p.shard == 0 {
            rep.sample(json!({"class": "long-program", "instructions": n_ops, "bytes": b.len()}));
        }
    }
    if p.shard == 0 {
        rep.sample(json!({"bytes": "f20100", "class": "non-canonical PushIC (leading zero)", "decodes": Covenant::from_bytes(&[0xf2, 1, 0]).is_ok()}));
    }
    rep.require("decodable", 1000);
    if !miri {
        rep.require("long programs beyond 65536 instructions", 1);
    }
    rep
}
