//! C18 - ERG is minted only against valid sequential work, within the reward formula.
use bytes::Bytes;
use melpow::{HashFunction, Proof, SVec};
use melstructs::{
    BlockHeight, CoinData, CoinDataHeight, CoinID, CoinValue, Denom, Header, NetID, Transaction, TxHash, TxKind,
};
use num::bigint::BigUint;
use serde_json::json;
use stdcode::StdcodeSerializeExt;
use tmelcrypt::HashVal;

use crate::guard::guarded;
use crate::refmath::{dosc_to_erg, reward_real};
use crate::report::Report;
use crate::rng::{fnv, Rng};
use crate::world::*;
use crate::Params;

/// the harness's own two MelPoW hash functions (written from the specification of TIP-910)
struct LegacyH;
impl HashFunction for LegacyH {
    fn hash(&self, b: &[u8], k: &[u8]) -> SVec<u8> {
        let key = blake3::hash(k);
        SVec::from_slice(blake3::keyed_hash(key.as_bytes(), b).as_bytes())
    }
}
struct Tip910H;
impl HashFunction for Tip910H {
    fn hash(&self, b: &[u8], k: &[u8]) -> SVec<u8> {
        let key = blake3::hash(k);
        let mut h = blake3::keyed_hash(key.as_bytes(), b);
        for _ in 0..99 {
            h = blake3::hash(h.as_bytes());
        }
        SVec::from_slice(h.as_bytes())
    }
}

fn ref_verify(proof_bytes: &[u8], puzzle: &[u8], difficulty: u32) -> Option<bool> {
    // returns Some(is_tip910) when the proof verifies under one of the two hashes
    let p = Proof::from_bytes(proof_bytes)?;
    let d = difficulty as usize;
    let p1 = p.clone();
    let pz = puzzle.to_vec();
    let legacy = guarded(move || p1.verify(&pz, d, LegacyH)).unwrap_or(false);
    if legacy {
        return Some(false);
    }
    let pz = puzzle.to_vec();
    let new = guarded(move || p.verify(&pz, d, Tip910H)).unwrap_or(false);
    if new {
        Some(true)
    } else {
        None
    }
}

fn fake_header(net: NetID, height: u64, salt: u8) -> Header {
    Header {
        network: net,
        previous: HashVal([salt; 32]),
        height: BlockHeight(height),
        history_hash: HashVal([salt.wrapping_add(1); 32]),
        coins_hash: HashVal([salt.wrapping_add(2); 32]),
        transactions_hash: HashVal([0u8; 32]),
        fee_pool: CoinValue(0),
        fee_multiplier: 0,
        dosc_speed: 1,
        pools_hash: HashVal([3u8; 32]),
        stakes_hash: HashVal([4u8; 32]),
    }
}

/// F23: mints carrying proofs written by `refpow::forge` - a handful of hash evaluations instead of 2^difficulty
/// sequential ones. On a natural chain (real genesis, real blocks, DOSC speed 10^6), for both hash functions, at
/// difficulties whose graph can still be labelled honestly (so the forged labels can be compared with the true ones)
/// and at difficulties nobody could have worked for (40, 56). A mint that creates the full reward against such a
/// proof violates "only against valid sequential work".
fn forged_probes(p: &Params, rep: &mut Report) {
    if p.shard != 0 || p.only_case.is_some() {
        return;
    }
    let small: &[usize] = if p.thorough { &[6, 10, 14, 17] } else { &[6, 10, 13] };
    let cases: Vec<(usize, bool)> = [(40usize, false), (56usize, false)].into_iter().chain(small.iter().map(|d| (*d, true))).collect();
    for net in [NetID::Mainnet, NetID::Custom02] {
        for tip910 in [false, true] {
            for (d, comparable) in &cases {
                let d = *d;
                let key = key_n(0xF23 + d as u64, 1);
                let cov = ed25519_new_cov(&key.pk);
                let coin_val: u128 = 1 << 40;
                // a real chain: genesis, then enough empty blocks for the mainnet age rule
                let db = new_db();
                let genesis = melstf::GenesisConfig {
                    network: net,
                    init_coindata: CoinData { covhash: addr_of(&cov), value: CoinValue(coin_val), denom: Denom::Mel, additional_data: Bytes::new() },
                    stakes: Default::default(),
                    init_fee_pool: CoinValue(0),
                    init_fee_multiplier: 0,
                };
                let blocks = if net == NetID::Mainnet { 100 } else { 3 };
                let made = guarded(move || {
                    let mut s = genesis.realize(&db).seal(None);
                    for _ in 1..blocks {
                        s = s.next_unsealed().seal(None);
                    }
                    s
                });
                let sealed = match made {
                    Ok(s) => s,
                    Err(_) => continue,
                };
                let coin_id = CoinID::zero_zero();
                let hdr0 = match sealed.history(BlockHeight(0)) {
                    Some(x) => x,
                    None => continue,
                };
                let puzzle = tmelcrypt::hash_keyed(hdr0.hash(), &stdcode::serialize(&coin_id).unwrap());
                let forged = crate::refpow::forge(&puzzle.0, d, tip910);
                // how the forged labels compare with the labels of the graph
                let (same, listed) = if *comparable {
                    let honest = crate::refpow::honest_units(&puzzle.0, d, tip910);
                    let same = forged.bytes.chunks(40).filter(|u| honest.get(&u[..8]).map(|l| l[..] == u[8..]).unwrap_or(false)).count();
                    (same as i64, honest.len() as i64)
                } else {
                    (-1, -1)
                };
                let apply_h = sealed.header().height.0 + 1;
                let age = apply_h;
                let work: u128 = (1u128 << d) * if tip910 { 100 } else { 1 };
                let speed = work / age as u128;
                let prev_speed = sealed.header().dosc_speed;
                let nominal = crate::model::big_to_u128_sat(&dosc_to_erg(apply_h, &reward_real(speed, prev_speed, d as u32, tip910))).min(MAX_COINVAL);
                let mut tx = Transaction {
                    kind: TxKind::DoscMint,
                    inputs: vec![coin_id],
                    outputs: vec![
                        CoinData { covhash: addr_of(&cov), value: CoinValue(coin_val), denom: Denom::Mel, additional_data: Bytes::new() },
                        CoinData { covhash: addr_of(&cov), value: CoinValue(nominal), denom: Denom::Erg, additional_data: Bytes::new() },
                    ],
                    fee: CoinValue(0),
                    covenants: vec![Bytes::from(cov.clone())],
                    data: Bytes::from(stdcode::serialize(&(d as u32, forged.bytes.clone())).unwrap()),
                    sigs: vec![],
                };
                tx.sigs = vec![Bytes::from(key.sk.sign(&tx.hash_nosigs().0 .0))];
                let mut st = sealed.next_unsealed();
                let t2 = tx.clone();
                rep.eval();
                rep.nontrivial(fnv(&tx.hash_nosigs().0 .0));
                rep.count("forged proofs offered (labels made up, one hash per challenged leaf)");
                let res = guarded(move || st.apply_tx(&t2).map(|_| st.seal(None).header().dosc_speed));
                if let Ok(Ok(new_speed)) = res {
                    // with labels that can be compared: a proof whose labels are those of the graph is not a forgery
                    if *comparable && same == listed {
                        continue;
                    }
                    rep.violate(
                        "C18|forged-proof-accepted|apply_tx|labels-made-up,commitment-never-checked",
                        format!("an ERG mint was accepted for a proof that took {} hash evaluations to write while claiming 2^{} sequential ones ({} hash, {:?}): {} micro-ERG created, recorded DOSC speed {} -> {}{}", forged.hash_calls, d, if tip910 { "TIP-910" } else { "legacy" }, net, nominal, prev_speed, new_speed, if *comparable { format!("; {} of the {} labels an honest proof lists are the graph's", same, listed) } else { String::new() }),
                        json!({"net": format!("{:?}", net), "difficulty": d, "tip910": tip910, "hash_evaluations_spent": forged.hash_calls, "claimed_sequential_hashes": format!("2^{}", d), "micro_erg_created": nominal.to_string(), "dosc_speed_before": prev_speed.to_string(), "dosc_speed_after": new_speed.to_string(), "labels_equal_to_the_graphs": same, "labels_listed_by_an_honest_proof": listed, "apply_height": apply_h, "tx_hex": tx_hex(&tx)}),
                    );
                } else {
                    rep.count("forged proofs refused");
                }
            }
        }
    }
}

pub fn run(p: &Params) -> Report {
    let mut rep = Report::new("C18");
    forged_probes(p, &mut rep);
    rep.rule = "cases = DoscMint transactions applied to fabricated states: real MelPoW proofs generated with the harness's own legacy and TIP-910 hash functions (difficulty 1..10 quick, ..14 thorough), coin ages 1..200 at heights around 1.1 million and on young chains of 2..141 blocks (coins of the genesis block), previous DOSC speeds 1..10^6 (and, one case in eight, 2^64..2^96) so that the reward ranges from 0 to large, ERG created at reward-1 / reward / reward+1, on custom networks and on mainnet (age below/at/above 100); corruptions: flipped proof byte, dropped node, proof for another coin / another creation height, stated difficulty +-1, garbage data, several mints in one block. Oracle: accept iff data decodes, the proof verifies (reference call into melpow with the harness's hashers) for puzzle = keyed-hash(header at the coin's creation height, coin id), ERG <= floor(inflator(h) * floor(work*speed*10^6/(prev_speed^2*2880)) / 10^6), and on mainnet age >= 100; sealed dosc_speed = max(previous, speeds of accepted mints) and never decreases. Non-trivial = every case; distinct by transaction hash".into();
    let total = p.n(4000, 80000);
    let mine = p.share(total);
    let mut rng = Rng::new(p.shard_seed() ^ 0xC18);
    let max_d = if p.thorough { 14 } else { 10 };
    for _case in 0..mine {
        let case_seed = rng.next();
        if let Some(only) = p.only_case {
            if only != case_seed {
                continue;
            }
        }
        let mut r = Rng::new(case_seed);
        let net = *r.pick(&[NetID::Custom02, NetID::Custom08, NetID::Testnet, NetID::Mainnet, NetID::Mainnet]);
        // sealed height; the mint is applied at h+1. One case in six is a young chain (fewer than ~150 blocks),
        // where coins of the genesis block are younger than the mainnet minimum age
        let young = r.chance(1, 6);
        let h = if young { 1 + r.below(140) } else { 1_100_000 + r.below(1000) };
        let apply_h = h + 1;
        let mut age = match r.below(6) {
            0 => 1,
            1 => 2,
            2 => 99,
            3 => 100,
            4 => 101 + r.below(100),
            _ => 1 + r.below(200),
        };
        if age > apply_h || (young && r.chance(1, 2)) {
            age = apply_h; // a coin of the genesis block (height 0)
        }
        let coin_h = apply_h - age;
        // (one case in eight: a recorded speed that needs more than 64 bits - reachable once a forged proof of
        // difficulty 56 and later has been accepted, F23 - against which every honest reward is zero)
        let prev_speed: u128 = if r.chance(1, 8) { *r.pick(&[(1u128 << 64) + 1000, (1u128 << 64) + 1, 1u128 << 64, (1u128 << 70) + 12345, (1u128 << 96) + 7]) } else { *r.pick(&[1u128, 2, 10, 100, 1000, 10_000, 1_000_000]) };
        if prev_speed >= (1u128 << 64) {
            rep.count("mints against a recorded DOSC speed of 2^64 or more");
        }
        let tip910 = r.chance(1, 2);
        let difficulty: u32 = if tip910 { 1 + r.below(max_d.min(8)) as u32 } else { 1 + r.below(max_d) as u32 };
        let key = key_n(case_seed, 1);
        let cov = ed25519_new_cov(&key.pk);
        let coin_id = CoinID { txhash: TxHash(HashVal(r.arr32())), index: r.below(3) as u8 };
        let other_id = CoinID { txhash: TxHash(HashVal(r.arr32())), index: 0 };
        let coin_val: u128 = 1 << 60;
        let mut fab = Fab::new(net, h);
        fab.dosc_speed = prev_speed;
        fab.parent_dosc_speed = prev_speed;
        let mk = |height: u64| CoinDataHeight { coin_data: CoinData { covhash: addr_of(&cov), value: CoinValue(coin_val), denom: Denom::Mel, additional_data: Bytes::new() }, height: BlockHeight(height) };
        fab.coins.push((coin_id, mk(coin_h)));
        fab.coins.push((other_id, mk(coin_h.saturating_sub(1).max(1))));
        if coin_h != h - 1 {
            fab.extra_history.push(fake_header(net, coin_h, 0x21));
        }
        if coin_h.saturating_sub(1).max(1) != h - 1 && coin_h.saturating_sub(1).max(1) != coin_h {
            fab.extra_history.push(fake_header(net, coin_h.saturating_sub(1).max(1), 0x42));
        }
        let db = new_db();
        let sealed = fab.build(&db);
        let st = sealed.next_unsealed();
        // a sibling chain: the same coins at the same heights, but another header at the coin's creation height, so the
        // puzzle is another one and a proof made for the first chain is worth nothing there - whatever this process has
        // already verified, accepted or refused elsewhere
        let sibling = if coin_h != h - 1 && coin_h != h {
            fab.extra_history.retain(|x| x.height.0 != coin_h);
            fab.extra_history.push(fake_header(net, coin_h, 0x77));
            let db2 = new_db();
            Some(fab.build(&db2).next_unsealed())
        } else {
            None
        };
        // header at the coin's creation height as the state knows it
        let hdr_at = |height: u64| -> Option<Header> { if height == h { Some(sealed.header()) } else { sealed.history(BlockHeight(height)) } };
        let corruption = r.below(12);
        // the puzzle the prover works on
        let (prove_coin, prove_height) = match corruption {
            0 => (other_id, coin_h),                 // proof for another coin
            1 => (coin_id, coin_h.saturating_sub(1).max(1)), // proof seeded with another height's header
            _ => (coin_id, coin_h),
        };
        let seed_hdr = match hdr_at(prove_height) {
            Some(x) => x,
            None => continue,
        };
        let puzzle_of = |hd: &Header, id: &CoinID| tmelcrypt::hash_keyed(hd.hash(), &stdcode::serialize(id).unwrap());
        let prove_puzzle = puzzle_of(&seed_hdr, &prove_coin);
        let proof = if tip910 { Proof::generate(&prove_puzzle, difficulty as usize, Tip910H) } else { Proof::generate(&prove_puzzle, difficulty as usize, LegacyH) };
        let mut proof_bytes = proof.to_bytes();
        let mut stated = difficulty;
        let mut label = "honest".to_string();
        match corruption {
            0 => label = "proof-for-another-coin".into(),
            1 => label = "proof-for-another-height".into(),
            2 => {
                let i = r.usize(proof_bytes.len());
                proof_bytes[i] ^= 1 << r.below(8);
                label = "flipped-byte".into();
            }
            3 => {
                let units = proof_bytes.len() / 40;
                let i = r.usize(units);
                proof_bytes.drain(i * 40..(i + 1) * 40);
                label = "dropped-node".into();
            }
            4 => {
                stated = difficulty + 1;
                label = "stated-difficulty+1".into();
            }
            5 => {
                stated = difficulty.saturating_sub(1);
                label = "stated-difficulty-1".into();
            }
            _ => {}
        }
        // reference reward for the stated difficulty
        let work: u128 = (1u128 << stated.min(100)) * if tip910 { 100 } else { 1 };
        let speed = work / age as u128;
        let real = reward_real(speed, prev_speed, stated, tip910);
        let nominal = dosc_to_erg(apply_h, &real);
        let nominal_u = crate::model::big_to_u128_sat(&nominal);
        let erg_choice = r.below(6);
        let copies = 2 + r.below(9) as u128;
        let erg: u128 = match erg_choice {
            0 => nominal_u.saturating_add(1),
            1 => nominal_u,
            2 => nominal_u.saturating_sub(1),
            3 => 0,
            4 => nominal_u / 2,
            // several ERG outputs, each exactly the reward
            _ => nominal_u.saturating_mul(copies),
        }
        .min(MAX_COINVAL);
        // the ERG is spread over 1-10 outputs: the bound is on their sum
        let erg_parts: Vec<u128> = if erg_choice == 5 && nominal_u > 0 && nominal_u.saturating_mul(copies) <= MAX_COINVAL {
            (0..copies).map(|_| nominal_u).collect()
        } else if erg >= 2 && r.chance(2, 5) {
            let k = (1 + r.below(4)).min((erg - 1) as u64) as usize;
            let mut left = erg;
            let mut parts = vec![];
            for _ in 0..k {
                let take = if left > 1 { 1 + (r.u128() % (left - 1)) } else { 0 };
                parts.push(take);
                left -= take;
            }
            parts.push(left);
            parts
        } else {
            vec![erg]
        };
        debug_assert_eq!(erg_parts.iter().sum::<u128>(), erg);
        let data: Vec<u8> = if corruption == 6 { r.bytes(r.clone().usize(60)) } else { stdcode::serialize(&(stated, proof_bytes.clone())).unwrap() };
        if corruption == 6 {
            label = "garbage-data".into();
        }
        let dest = addr_of(&cov);
        let mut tx = Transaction {
            kind: TxKind::DoscMint,
            inputs: vec![coin_id],
            outputs: std::iter::once(CoinData { covhash: dest, value: CoinValue(coin_val), denom: Denom::Mel, additional_data: Bytes::new() })
                .chain(erg_parts.iter().map(|e| CoinData { covhash: dest, value: CoinValue(*e), denom: Denom::Erg, additional_data: Bytes::new() }))
                .collect(),
            fee: CoinValue(0),
            covenants: vec![Bytes::from(cov.clone())],
            data: Bytes::from(data),
            sigs: vec![],
        };
        if erg == 0 && r.chance(1, 2) {
            tx.outputs.pop();
        }
        if erg_parts.len() > 1 {
            rep.count("mints with the ERG spread over several outputs");
        }
        tx.sigs = vec![Bytes::from(key.sk.sign(&tx.hash_nosigs().0 .0))];
        // ---- reference verdict
        let real_puzzle = hdr_at(coin_h).map(|hd| puzzle_of(&hd, &coin_id));
        let decoded: Option<(u32, Vec<u8>)> = stdcode::deserialize(&tx.data).ok();
        let verifies = match (&decoded, &real_puzzle) {
            (Some((d, pb)), Some(pz)) => ref_verify(pb, &pz.0, *d),
            _ => None,
        };
        let expect = match (&decoded, verifies) {
            (Some((d, _)), Some(is910)) => {
                let work: u128 = (1u128 << (*d).min(100)) * if is910 { 100 } else { 1 };
                let speed = work / age as u128;
                let real = reward_real(speed, prev_speed, *d, is910);
                let nominal = dosc_to_erg(apply_h, &real);
                let age_ok = net != NetID::Mainnet || age >= 100;
                if age_ok && BigUint::from(erg) <= nominal {
                    Some(speed)
                } else {
                    None
                }
            }
            _ => None,
        };
        rep.eval();
        rep.nontrivial(fnv(&tx.hash_nosigs().0 .0));
        // the sibling chain must refuse an honest mint of this chain, before ...
        let mut sib_probe = |rep: &mut Report, when: &str| {
            if let (Some(sib), true, Some((d, pb))) = (&sibling, label == "honest", &decoded) {
                let sib_hdr = sib.clone().seal(None).history(BlockHeight(coin_h));
                let valid_there = sib_hdr.map(|hd| ref_verify(pb, &puzzle_of(&hd, &coin_id).0, *d).is_some()).unwrap_or(false);
                if !valid_there {
                    let mut s2 = sib.clone();
                    let t2 = tx.clone();
                    rep.eval();
                    rep.count(&format!("honest mints offered to a sibling chain with another header at the coin's height ({})", when));
                    if let Ok(Ok(())) = guarded(move || s2.apply_tx(&t2)) {
                        rep.violate(
                            &format!("C18|invalid-mint-accepted|apply_tx|proof-for-another-chain,{}", when),
                            "a mint whose proof was made for the puzzle of another chain (same coin, another header at its creation height) was accepted".into(),
                            json!({"case_seed": case_seed, "net": format!("{:?}", net), "apply_height": apply_h, "coin_height": coin_h, "when": when, "tx_hex": tx_hex(&tx)}),
                        );
                    }
                }
            }
        };
        sib_probe(&mut rep, "before-this-chain-saw-it");
        let mut st2 = st.clone();
        let txc = tx.clone();
        // in half of the cases the block goes on after the mint: an ordinary transfer in a second batch
        let follow = if r.chance(1, 2) {
            let mut f = Transaction {
                kind: TxKind::Normal,
                inputs: vec![other_id],
                outputs: vec![CoinData { covhash: dest, value: CoinValue(coin_val), denom: Denom::Mel, additional_data: Bytes::new() }],
                fee: CoinValue(0),
                covenants: vec![Bytes::from(cov.clone())],
                data: Bytes::new(),
                sigs: vec![],
            };
            f.sigs = vec![Bytes::from(key.sk.sign(&f.hash_nosigs().0 .0))];
            Some(f)
        } else {
            None
        };
        let had_follow = follow.is_some();
        let res = guarded(move || {
            st2.apply_tx(&txc).map(|_| {
                if let Some(f) = follow {
                    let _ = st2.apply_tx(&f);
                }
                let sealed = st2.seal(None);
                let s1 = sealed.header().dosc_speed;
                // and one empty block later it must not have gone down
                let s2 = sealed.next_unsealed().seal(None).header().dosc_speed;
                s1.min(s2)
            })
        });
        if had_follow {
            rep.count("blocks continued with a second batch after the mint");
        }
        // ... and after this chain has verified (and possibly accepted) it
        sib_probe(&mut rep, "after-this-chain-verified-it");
        let erg_cls = match erg_choice {
            0 => "erg=reward+1",
            1 => "erg=reward",
            2 => "erg=reward-1",
            3 => "erg=0",
            4 => "erg=reward/2",
            _ => "erg=several-outputs-of-the-reward-each",
        };
        let erg_cls = if erg_parts.len() > 1 && erg_choice != 5 { format!("{},in-{}-outputs", erg_cls, if erg_parts.len() == 2 { "2".to_string() } else { "3+".to_string() }) } else { erg_cls.to_string() };
        let wit = json!({"case_seed": case_seed, "net": format!("{:?}", net), "apply_height": apply_h, "coin_height": coin_h, "age": age, "prev_speed": prev_speed.to_string(), "difficulty": difficulty, "stated_difficulty": stated, "tip910": tip910,
            "corruption": label, "erg": erg.to_string(), "reference_reward": nominal.to_string(), "reference_expects_accept": expect.is_some(), "tx_hex": tx_hex(&tx), "result": format!("{:?}", res.as_ref().map_err(|e| e.message.clone()))});
        let agecls = if net == NetID::Mainnet { if age < 100 { "mainnet-age<100" } else { "mainnet-age>=100" } } else { "non-mainnet" };
        match res {
            Err(pn) => {
                rep.count("apply panicked (counted here, C09's business)");
                let _ = pn;
            }
            Ok(Ok(new_speed)) => {
                rep.count(&format!("accepted: {} {} {}", label, erg_cls, if tip910 { "tip910" } else { "legacy" }));
                match expect {
                    None => {
                        let why = if decoded.is_none() { "undecodable-data".to_string() } else if verifies.is_none() { format!("invalid-proof:{}", label) } else if net == NetID::Mainnet && age < 100 { "mainnet-coin-too-young".to_string() } else { format!("erg-above-reward:{}", erg_cls) };
                        rep.violate(&format!("C18|invalid-mint-accepted|apply_tx|{}", why), format!("an ERG mint the reference rejects ({}) was accepted", why), wit);
                    }
                    Some(speed) => {
                        let want = prev_speed.max(speed);
                        if new_speed != want {
                            rep.violate(&format!("C18|dosc-speed-wrong|seal|{}", if new_speed < prev_speed { "decreased" } else { "not-max" }), format!("dosc_speed after the block is {} but max(previous {}, demonstrated {}) = {}", new_speed, prev_speed, speed, want), wit);
                        }
                        if speed > prev_speed {
                            rep.count("accepted mints that raised the DOSC speed");
                        }
                    }
                }
            }
            Ok(Err(e)) => {
                rep.count(&format!("rejected: {} {}", label, agecls));
                if expect.is_some() {
                    rep.violate(&format!("C18|valid-mint-rejected|apply_tx|{},{}", erg_cls, agecls), format!("an ERG mint with a valid proof and ERG within the reward was rejected: {:?}", e), wit);
                }
            }
        }
        if rep.samples.len() < 4 && label == "honest" && nominal_u > 0 {
            rep.sample(json!({"difficulty": difficulty, "tip910": tip910, "age": age, "prev_speed": prev_speed.to_string(), "reference_reward_microerg": nominal.to_string(), "erg_requested": erg.to_string(), "proof_bytes": proof_bytes.len()}));
        }
    }
    // several mints in one block: dosc_speed is the maximum, independent of order
    let n_multi = p.share(p.n(120, 3000));
    for k in 0..n_multi {
        let case_seed = rng.next();
        let mut r = Rng::new(case_seed);
        let net = NetID::Custom02;
        let h = 1_200_000 + r.below(100);
        let apply_h = h + 1;
        let key = key_n(case_seed, 2);
        let cov = ed25519_new_cov(&key.pk);
        let prev_speed = *r.pick(&[1u128, 5, 50]);
        let mut fab = Fab::new(net, h);
        fab.dosc_speed = prev_speed;
        let n = 2 + r.usize(5);
        let mut coins = vec![];
        for i in 0..n {
            let id = CoinID { txhash: TxHash(HashVal(r.arr32())), index: 0 };
            let age = 1 + r.below(3);
            let ch = apply_h - age;
            fab.coins.push((id, CoinDataHeight { coin_data: CoinData { covhash: addr_of(&cov), value: CoinValue(1 << 50), denom: Denom::Mel, additional_data: Bytes::new() }, height: BlockHeight(ch) }));
            if ch != h - 1 && !fab.extra_history.iter().any(|x| x.height.0 == ch) && ch != h {
                fab.extra_history.push(fake_header(net, ch, 0x30 + i as u8));
            }
            coins.push((id, age, ch));
        }
        let db = new_db();
        let sealed = fab.build(&db);
        let mut txs = vec![];
        let mut max_speed = prev_speed;
        for (id, age, ch) in &coins {
            let hd = if *ch == h { sealed.header() } else { sealed.history(BlockHeight(*ch)).unwrap() };
            let puzzle = tmelcrypt::hash_keyed(hd.hash(), &stdcode::serialize(id).unwrap());
            let d = 1 + r.below(8) as u32;
            let proof = Proof::generate(&puzzle, d as usize, LegacyH);
            let speed = (1u128 << d) / *age as u128;
            max_speed = max_speed.max(speed);
            let mut tx = Transaction {
                kind: TxKind::DoscMint,
                inputs: vec![*id],
                outputs: vec![CoinData { covhash: addr_of(&cov), value: CoinValue(1 << 50), denom: Denom::Mel, additional_data: Bytes::new() }],
                fee: CoinValue(0),
                covenants: vec![Bytes::from(cov.clone())],
                data: Bytes::from(stdcode::serialize(&(d, proof.to_bytes())).unwrap()),
                sigs: vec![],
            };
            tx.sigs = vec![Bytes::from(key.sk.sign(&tx.hash_nosigs().0 .0))];
            txs.push(tx);
        }
        let mut speeds = vec![];
        let pool1 = rayon::ThreadPoolBuilder::new().num_threads(1).build().unwrap();
        let n_orders = 8;
        for variant in 0..n_orders {
            let mut order = txs.clone();
            if variant == 1 {
                order.reverse();
            }
            if variant >= 2 {
                r.shuffle(&mut order);
            }
            if variant == 3 {
                // fastest first
                order.sort_by_key(|t| std::cmp::Reverse(stdcode::deserialize::<(u32, Vec<u8>)>(&t.data).map(|x| x.0).unwrap_or(0)));
            }
            for single in [true, false] {
                let mut st = sealed.next_unsealed();
                let o = order.clone();
                rep.eval();
                let run = move || st.apply_tx_batch(&o).map(|_| st.seal(None).header().dosc_speed);
                let res = if single { guarded(|| pool1.install(run)) } else { guarded(run) };
                if let Ok(Ok(s)) = res {
                    speeds.push(s);
                }
            }
        }
        rep.count("blocks with several mints");
        rep.nontrivial(fnv(&case_seed.to_be_bytes()));
        if speeds.len() == 16 && (speeds.iter().any(|s| *s != max_speed)) {
            rep.violate("C18|dosc-speed-wrong|seal|several-mints-in-block", format!("dosc_speed after a block with {} mints is {:?}, expected the maximum {}", n, speeds, max_speed), json!({"case_seed": case_seed, "txs_hex": txs.iter().map(tx_hex).collect::<Vec<_>>()}));
        }
        if speeds.len() != 16 {
            rep.violate("C18|valid-mint-rejected|apply_tx_batch|several-mints-in-block", "a batch of valid zero-ERG mints was rejected".into(), json!({"case_seed": case_seed, "k": k}));
        }
    }
    if p.only_case.is_none() {
        rep.require("accepted mints that raised the DOSC speed", p.n(50, 1000));
        rep.require("blocks with several mints", p.n(40, 800));
        rep.require("mints with the ERG spread over several outputs", p.n(100, 2000));
        rep.require("mints against a recorded DOSC speed of 2^64 or more", p.n(100, 2000));
    }
    rep
}
