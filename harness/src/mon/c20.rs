//! C20 - per-covenant coin counts always equal the number of unspent coins.
use std::collections::{BTreeMap, HashMap};

use melstructs::{Address, NetID};
use serde_json::json;

use crate::gen::*;
use crate::report::Report;
use crate::rng::{fnv, Rng};
use crate::world::*;
use crate::Params;

pub struct C20 {
    pub rep: Report,
    pub case_seed: u64,
}

impl C20 {
    fn check_view(&mut self, w: &World, v: &View, site: &str, class: &str, wit: serde_json::Value) {
        let height = v.snap.height.0;
        if !tip_active(w.net, height, TIP_906) {
            self.rep.count("views before TIP-906 activation (not checked)");
            return;
        }
        self.rep.eval();
        self.rep.count(&format!("views checked after {}", site));
        let mut census: HashMap<Address, u64> = HashMap::new();
        let mut counts: BTreeMap<[u8; 32], u64> = BTreeMap::new();
        for (k, raw) in v.coins.iter() {
            match classify_coin_entry(raw) {
                CoinEntry::Coin(c) => *census.entry(c.coin_data.covhash).or_default() += 1,
                CoinEntry::Count(n) => {
                    counts.insert(*k, n);
                }
                CoinEntry::Unknown(_) => {
                    self.rep.violate(&format!("C20|undecodable-entry|{}|{}", site, class), "coin tree entry that is neither a coin nor a count".into(), wit.clone());
                }
            }
        }
        self.rep.max("max:distinct covenant hashes in one view", census.len() as u64);
        let crowd = census.values().copied().max().unwrap_or(0);
        self.rep.max("max:coins under one covenant hash", crowd);
        if crowd > 251 {
            self.rep.count("views with more than 251 coins under one covenant hash");
        }
        let mut matched = 0usize;
        for (cov, n) in census.iter() {
            let k = count_key(cov);
            match counts.get(&k) {
                Some(c) if c == n => matched += 1,
                Some(c) => {
                    let dir = if c > n { "count-too-high" } else { "count-too-low" };
                    let mut wj = wit.clone();
                    wj["covhash"] = json!(hex::encode(cov.0 .0));
                    wj["recorded"] = json!(c);
                    wj["actual"] = json!(n);
                    self.rep.violate(&format!("C20|{}|{}|{}", dir, site, class), format!("count entry says {} but {} unspent coins carry this covenant hash", c, n), wj);
                    matched += 1;
                }
                None => {
                    let mut wj = wit.clone();
                    wj["covhash"] = json!(hex::encode(cov.0 .0));
                    wj["actual"] = json!(n);
                    self.rep.violate(&format!("C20|count-missing|{}|{}", site, class), format!("{} coins carry a covenant hash that has no count entry", n), wj);
                }
            }
        }
        if counts.len() > matched {
            let zero = counts.values().filter(|n| **n == 0).count();
            let kind = if zero > 0 { "zero-count-entry" } else { "orphan-count-entry" };
            self.rep.violate(&format!("C20|{}|{}|{}", kind, site, class), format!("{} count entries for covenant hashes that no unspent coin carries", counts.len() - matched), wit.clone());
        }
    }
}

impl Monitor for C20 {
    fn on_batch(&mut self, w: &World, ev: &BatchEvent) {
        if !ev.accepted() {
            return;
        }
        let dep = crate::mon::c02::has_dependency(&ev.txs);
        let cls = if dep {
            if crate::mon::c02::child_before_parent(&ev.txs) { "dependent-batch,child-before-parent" } else { "dependent-batch,parent-first" }
        } else if ev.txs.iter().any(|t| t.kind == melstructs::TxKind::Faucet) {
            "batch-with-faucet"
        } else {
            "independent-batch"
        };
        let mut fp = vec![];
        for t in &ev.txs {
            fp.extend_from_slice(&t.hash_nosigs().0 .0);
        }
        self.rep.nontrivial(fnv(&fp));
        let wit = crate::mon::c02::batch_witness(w, ev, self.case_seed);
        self.check_view(w, &ev.post, "apply_tx_batch", cls, wit);
    }
    fn on_seal(&mut self, w: &World, ev: &SealEvent) {
        if ev.panic.is_some() || ev.phases.len() < 8 {
            return;
        }
        let has = |k: melstructs::TxKind| ev.block_txs.iter().any(|t| t.kind == k && melstructs::PoolKey::from_bytes(&t.data).is_some());
        let mut parts = vec![];
        if has(melstructs::TxKind::Swap) {
            parts.push("swap");
        }
        if has(melstructs::TxKind::LiqDeposit) {
            parts.push("deposit");
        }
        if has(melstructs::TxKind::LiqWithdraw) {
            parts.push("withdrawal");
        }
        if ev.action.is_some() {
            parts.push("reward");
        }
        let cls = if parts.is_empty() { "plain-block".to_string() } else { parts.join("+") };
        let wit = json!({"case_seed": self.case_seed, "origin": w.origin, "height": ev.height, "action": format!("{:?}", ev.action),
            "block_txs": ev.block_txs.iter().map(tx_brief).collect::<Vec<_>>(), "block_txs_hex": ev.block_txs.iter().map(tx_hex).collect::<Vec<_>>()});
        let mut fp = ev.height.to_be_bytes().to_vec();
        for t in &ev.block_txs {
            fp.extend_from_slice(&t.hash_nosigs().0 .0);
        }
        if !parts.is_empty() {
            self.rep.nontrivial(fnv(&fp));
        }
        self.check_view(w, &ev.phases[7], "seal", &cls, wit.clone());
        // the state opened for the next block (activation census happens here)
        let next = view_of(&w.db, &w.cur, "next");
        let activation = tip_active(w.net, next.snap.height.0, TIP_906) && !tip_active(w.net, ev.height, TIP_906);
        if activation {
            self.rep.count("activation boundaries crossed");
        }
        self.check_view(w, &next, "next_unsealed", if activation { "activation-census" } else { "plain" }, wit);
        if self.rep.samples.len() < self.rep.max_samples && parts.len() >= 2 {
            self.rep.sample(json!({"height": ev.height, "origin": w.origin, "block": cls, "coin_tree_entries": ev.phases[7].coins.len()}));
        }
    }
}

pub fn run(p: &Params) -> Report {
    let total = p.n(1500, 40000);
    let mine = p.share(total);
    let mut rng = Rng::new(p.shard_seed() ^ 0xC20);
    let mut mon = C20 { rep: Report::new("C20"), case_seed: 0 };
    mon.rep.rule = "cases = coin-tree snapshots after every accepted batch, every seal and every next_unsealed of random histories of all transaction kinds (swap rewrite, deposit removal, withdrawal synthesis, faucet markers, proposer rewards incl. the destroy address, dependent batches in every order, payments fanning out into ~250 coins at one address so that counts pass 251 and come back) on custom networks (TIP-906 from genesis) and on testnet/mainnet histories fabricated just below the activation height and run across it; entries are split by shape into coins and counts and for every covenant hash the count must equal the census, with no orphan or zero count entry. Non-trivial = accepted batch or block with pool settlement/reward; distinct by member hashes".into();
    if p.only_case.is_none() {
        mon.rep.require("views checked after apply_tx_batch", p.n(1000, 20000));
        mon.rep.require("views checked after seal", p.n(1000, 20000));
        mon.rep.require("activation boundaries crossed", p.n(5, 100));
        mon.rep.require("views with more than 251 coins under one covenant hash", p.n(50, 1000));
    }
    for case in 0..mine {
        let case_seed = rng.next();
        if let Some(only) = p.only_case {
            if only != case_seed {
                continue;
            }
        }
        mon.case_seed = case_seed;
        let mut w = match case % 8 {
            0 => World::fabricated(case_seed, NetID::Testnet, 495 + (case / 8) % 4, 0, 0),
            1 => World::fabricated(case_seed, NetID::Mainnet, 829_994 + (case / 8) % 5, 0, 1000),
            2 | 3 => World::from_genesis(case_seed, NetID::Custom02, 0, 0, melstructs::Denom::Mel, 1u128 << 100),
            4 => World::fabricated(case_seed, NetID::Custom08, 7, 100, 0),
            _ => World::random(case_seed),
        };
        w.profile.swap = 18;
        w.profile.deposit = 12;
        w.profile.withdraw = 10;
        w.profile.dependent_permille = 500;
        w.profile.hostile = 8;
        w.profile.degenerate_permille = 70;
        if matches!(case % 8, 2 | 5 | 6) {
            // payments fanning out into ~250 coins at one address: counts beyond 250 and back
            w.profile.crowd_permille = 50;
        }
        let blocks = 6 + (case % 9) as usize;
        run_history(&mut w, blocks, &mut [&mut mon]);
    }
    mon.rep
}
