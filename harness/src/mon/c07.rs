//! C07 - headers commit to the whole state and chain together; contents are provable.
use std::collections::BTreeMap;

use bytes::Bytes;
use melstf::{CoinMapping, SmtMapping};
use melstructs::{
    BlockHeight, CoinData, CoinDataHeight, CoinID, CoinValue, Denom, Header, NetID, PoolKey, PoolState,
    StakeDoc, Transaction, TxHash,
};
use novasmt::dense::{verify_dense, DenseMerkleTree};
use serde_json::json;
use stdcode::StdcodeSerializeExt;
use tmelcrypt::HashVal;

use crate::gen::*;
use crate::refsmt::{self, H};
use crate::report::Report;
use crate::rng::{fnv, Rng};
use crate::world::*;
use crate::Params;

pub struct C07 {
    pub rep: Report,
    pub case_seed: u64,
    headers: Vec<Header>,
    r: Rng,
}

fn tree_contents(t: &novasmt::Tree<Cas>) -> BTreeMap<H, Vec<u8>> {
    t.iter().map(|(k, v)| (k, v.to_vec())).collect()
}

impl C07 {
    fn wit(&self, w: &World, ev: &SealEvent, extra: serde_json::Value) -> serde_json::Value {
        json!({"case_seed": self.case_seed, "origin": w.origin, "height": ev.height, "header": ev.header.as_ref().map(header_json),
            "block_txs_hex": ev.block_txs.iter().map(tx_hex).collect::<Vec<_>>(), "detail": extra})
    }

    fn check_proofs(&mut self, w: &World, ev: &SealEvent, name: &str, tree: &novasmt::Tree<Cas>, contents: &BTreeMap<H, Vec<u8>>, root: H) {
        let keys: Vec<&H> = contents.keys().collect();
        let n = keys.len().min(24);
        for i in 0..n {
            let k = if keys.len() <= 24 { keys[i] } else { keys[self.r.usize(keys.len())] };
            let val = &contents[k];
            let (got, proof) = tree.get_with_proof(*k);
            self.rep.count(&format!("inclusion proofs checked: {}", name));
            let okv = got.as_ref() == val.as_slice();
            let ok1 = proof.verify(root, *k, val);
            let ok2 = refsmt::verify_sparse(&proof.0, &root, k, val);
            let mut bad = val.clone();
            let p = self.r.usize(bad.len());
            bad[p] ^= 1;
            let t1 = proof.verify(root, *k, &bad);
            let t2 = refsmt::verify_sparse(&proof.0, &root, k, &[]);
            if !okv || !ok1 || !ok2 {
                self.rep.violate(&format!("C07|inclusion-proof-fails|{}|present-key", name), "an entry of the tree cannot be proven against the root in the header".into(), self.wit(w, ev, json!({"key": hex::encode(k)})));
            }
            if t1 || t2 {
                self.rep.violate(&format!("C07|proof-accepts-wrong-value|{}|tampered-or-absent", name), "a proof verifies for a value that is not in the tree".into(), self.wit(w, ev, json!({"key": hex::encode(k)})));
            }
        }
        // absent keys
        for _ in 0..4 {
            let k = self.r.arr32();
            if contents.contains_key(&k) {
                continue;
            }
            let (got, proof) = tree.get_with_proof(k);
            self.rep.count(&format!("absence proofs checked: {}", name));
            if !got.is_empty() || !proof.verify(root, k, &[]) || !refsmt::verify_sparse(&proof.0, &root, &k, &[]) {
                self.rep.violate(&format!("C07|absence-proof-fails|{}|absent-key", name), "an absent key cannot be proven absent".into(), self.wit(w, ev, json!({"key": hex::encode(k)})));
            }
            if proof.verify(root, k, b"x") || refsmt::verify_sparse(&proof.0, &root, &k, b"\x01") {
                self.rep.violate(&format!("C07|proof-accepts-wrong-value|{}|absent-key-as-present", name), "an absent key verifies as present".into(), self.wit(w, ev, json!({"key": hex::encode(k)})));
            }
        }
    }
}

impl Monitor for C07 {
    fn on_seal(&mut self, w: &World, ev: &SealEvent) {
        let (hdr, tip) = match (&ev.header, &w.tip) {
            (Some(h), Some(t)) if ev.panic.is_none() => (*h, t.clone()),
            _ => return,
        };
        self.rep.eval();
        self.rep.count("sealed states checked");
        let mut fp = hdr.hash().0.to_vec();
        fp.extend_from_slice(&ev.height.to_be_bytes());
        if !ev.block_txs.is_empty() {
            self.rep.nontrivial(fnv(&fp));
        }
        // ---- chaining
        if hdr.network != w.net {
            self.rep.violate("C07|network-changed|header|network", "the header's network id differs from the chain's".into(), self.wit(w, ev, json!(null)));
        }
        if hdr.height.0 != ev.height {
            self.rep.violate("C07|height-wrong|header|height", format!("sealed height {} but header says {}", ev.height, hdr.height.0), self.wit(w, ev, json!(null)));
        }
        match &ev.parent_header {
            Some(p) => {
                if hdr.height.0 != p.height.0 + 1 {
                    self.rep.violate("C07|height-not-parent-plus-one|header|height", format!("parent {} child {}", p.height.0, hdr.height.0), self.wit(w, ev, json!(null)));
                }
                if hdr.previous != p.hash() {
                    self.rep.violate("C07|previous-hash-wrong|header|previous", "previous is not the hash of the parent's header".into(), self.wit(w, ev, json!(null)));
                }
                if tip.history(p.height) != Some(*p) {
                    self.rep.violate("C07|history-misses-parent|history|parent", "the history tree does not hold the parent's header at the parent's height".into(), self.wit(w, ev, json!(null)));
                }
            }
            None => {
                if hdr.height.0 == 0 && hdr.previous != HashVal([0u8; 32]) {
                    self.rep.violate("C07|previous-hash-wrong|header|genesis", "genesis header has a non-zero previous hash".into(), self.wit(w, ev, json!(null)));
                }
            }
        }
        // every recorded ancestor
        let n_anc = self.headers.len();
        for i in 0..n_anc.min(6) {
            let a = if n_anc <= 6 { self.headers[i] } else { self.headers[self.r.usize(n_anc)] };
            self.rep.count("ancestor lookups");
            if tip.history(a.height) != Some(a) {
                self.rep.violate("C07|history-misses-ancestor|history|ancestor", format!("history({}) is not the header sealed at that height", a.height.0), self.wit(w, ev, json!({"ancestor_height": a.height.0})));
            }
        }
        if tip.history(hdr.height).is_some() {
            self.rep.violate("C07|history-holds-own-height|history|self", "the history tree of a sealed state already holds an entry at its own height".into(), self.wit(w, ev, json!(null)));
        }
        // ---- roots are functions of contents
        let coins_t = tip.raw_coins_smt();
        let pools_t = tip.raw_pools_smt();
        let hist_t = tip.raw_history_smt();
        let coins_c = tree_contents(&coins_t);
        let pools_c = tree_contents(&pools_t);
        let hist_c = tree_contents(&hist_t);
        for (name, contents, root) in [("coins", &coins_c, hdr.coins_hash.0), ("pools", &pools_c, hdr.pools_hash.0), ("history", &hist_c, hdr.history_hash.0)] {
            self.rep.count(&format!("roots recomputed from contents: {}", name));
            if refsmt::sparse_root(contents) != root {
                self.rep.violate(&format!("C07|root-not-function-of-contents|{}|header", name), format!("the {} root in the header differs from the Merkle root of the tree's iterated contents ({} entries)", name, contents.len()), self.wit(w, ev, json!(null)));
            }
        }
        // the coins root is a function of the coin set alone: with TIP-906 the per-covenant counts in the same
        // tree are derived data, so the root must equal the reference root over the coins plus their census
        if tip_active(w.net, ev.height, TIP_906) {
            let mut derived: BTreeMap<H, Vec<u8>> = BTreeMap::new();
            let mut census: BTreeMap<[u8; 32], u64> = BTreeMap::new();
            for (k, v) in coins_c.iter() {
                if let CoinEntry::Coin(c) = classify_coin_entry(v) {
                    derived.insert(*k, v.clone());
                    *census.entry(c.coin_data.covhash.0 .0).or_default() += 1;
                }
            }
            for (cov, n) in census {
                derived.insert(count_key(&melstructs::Address(HashVal(cov))), n.stdcode());
            }
            self.rep.count("coin roots recomputed from the coin set alone (counts derived)");
            if refsmt::sparse_root(&derived) != hdr.coins_hash.0 {
                self.rep.violate("C07|root-not-function-of-contents|coins|coin-set-with-derived-counts", "coins_hash differs from the Merkle root over the unspent coins and the counts derived from them: the commitment depends on how the state was reached".into(), self.wit(w, ev, json!({"coins": derived.len()})));
            }
        }
        // history contents: exactly heights below this one that we know, each the right header
        for a in self.headers.iter() {
            let k = height_key(a.height.0);
            if hist_c.get(&k).map(|v| v.as_slice()) != Some(&a.stdcode()[..]) {
                self.rep.violate("C07|history-entry-wrong|history|ancestor", "raw history tree entry differs from the ancestor's header".into(), self.wit(w, ev, json!({"ancestor_height": a.height.0})));
                break;
            }
        }
        // stakes
        let stakes = tip.raw_stakes();
        let st_c: BTreeMap<H, Vec<u8>> = stakes.iter().map(|(k, v)| (tmelcrypt::hash_single(&k.stdcode()).0, v.stdcode())).collect();
        if refsmt::sparse_root(&st_c) != hdr.stakes_hash.0 {
            self.rep.violate("C07|root-not-function-of-contents|stakes|header", "stakes_hash differs from the Merkle root over the registered stakes".into(), self.wit(w, ev, json!({"stakes": st_c.len()})));
        }
        if !st_c.is_empty() {
            self.rep.count("states with stakes");
        }
        // transactions
        let mut txs: Vec<&Transaction> = ev.block_txs.iter().collect();
        txs.sort_by_key(|t| t.hash_nosigs());
        if tip908_active(w.net) {
            let leaves: Vec<Vec<u8>> = txs
                .iter()
                .map(|t| {
                    let mut v = t.hash_nosigs().0 .0.to_vec();
                    v.extend_from_slice(&tmelcrypt::hash_single(&t.stdcode()).0);
                    v
                })
                .collect();
            if refsmt::dense_root(&leaves) != hdr.transactions_hash.0 {
                self.rep.violate("C07|root-not-function-of-contents|transactions-dense|header", "transactions_hash differs from the dense Merkle root over the sorted transaction leaves".into(), self.wit(w, ev, json!({"n": leaves.len()})));
            }
            let dmt = DenseMerkleTree::new(&leaves);
            for (i, t) in txs.iter().enumerate() {
                self.rep.count("transaction inclusion proofs checked: dense");
                let pos = tip.transaction_sorted_posn(t.hash_nosigs());
                if pos != Some(i) {
                    self.rep.violate("C07|transaction-position-wrong|transaction_sorted_posn|dense", format!("position {:?} instead of {}", pos, i), self.wit(w, ev, json!(null)));
                    continue;
                }
                let proof = dmt.proof(i);
                if !verify_dense(&proof, hdr.transactions_hash.0, i, refsmt::leaf_hash(&leaves[i])) {
                    self.rep.violate("C07|inclusion-proof-fails|transactions-dense|present", "a block transaction does not verify at its sorted position".into(), self.wit(w, ev, json!({"index": i})));
                }
                if leaves.len() > 1 && verify_dense(&proof, hdr.transactions_hash.0, (i + 1) % leaves.len(), refsmt::leaf_hash(&leaves[i])) && leaves[(i + 1) % leaves.len()] != leaves[i] {
                    self.rep.violate("C07|proof-accepts-wrong-value|transactions-dense|wrong-position", "a transaction verifies at a position that is not its own".into(), self.wit(w, ev, json!({"index": i})));
                }
            }
        } else {
            let c: BTreeMap<H, Vec<u8>> = txs.iter().map(|t| (tmelcrypt::hash_single(&t.hash_nosigs().stdcode()).0, t.stdcode())).collect();
            if refsmt::sparse_root(&c) != hdr.transactions_hash.0 {
                self.rep.violate("C07|root-not-function-of-contents|transactions-sparse|header", "transactions_hash differs from the sparse Merkle root over the block's transactions".into(), self.wit(w, ev, json!({"n": c.len()})));
            }
            if !txs.is_empty() {
                let db = new_db();
                let mut m: SmtMapping<Cas, TxHash, Transaction> = SmtMapping::new(db.get_tree([0u8; 32]).unwrap());
                for t in &txs {
                    m.insert(t.hash_nosigs(), (*t).clone());
                }
                for (i, t) in txs.iter().enumerate().take(12) {
                    self.rep.count("transaction inclusion proofs checked: sparse");
                    let (v, proof) = m.get_with_proof(&t.hash_nosigs());
                    let key = tmelcrypt::hash_single(&t.hash_nosigs().stdcode()).0;
                    if v.as_ref() != Some(*t) || !proof.verify(hdr.transactions_hash.0, key, &t.stdcode()) {
                        self.rep.violate("C07|inclusion-proof-fails|transactions-sparse|present", "a block transaction cannot be proven against transactions_hash".into(), self.wit(w, ev, json!({"index": i})));
                    }
                    if tip.transaction_sorted_posn(t.hash_nosigs()) != Some(i) {
                        self.rep.violate("C07|transaction-position-wrong|transaction_sorted_posn|sparse", "sorted position differs from the rank of the transaction hash".into(), self.wit(w, ev, json!({"index": i})));
                    }
                }
            }
        }
        // ---- a transaction that is not in the block has no position in it
        {
            let present: std::collections::BTreeSet<[u8; 32]> = txs.iter().map(|t| t.hash_nosigs().0 .0).collect();
            let mut absent: Vec<[u8; 32]> = vec![[0u8; 32], [0xffu8; 32], tmelcrypt::hash_single(&ev.height.to_be_bytes()).0];
            for t in txs.iter().take(6) {
                let mut lo = t.hash_nosigs().0 .0;
                lo[31] ^= 1;
                let mut hi = t.hash_nosigs().0 .0;
                hi[0] ^= 0x80;
                absent.push(lo);
                absent.push(hi);
            }
            for a in absent {
                if present.contains(&a) {
                    continue;
                }
                self.rep.count("absent transaction hashes asked for a position");
                if let Some(pos) = tip.transaction_sorted_posn(TxHash(HashVal(a))) {
                    self.rep.violate(
                        &format!("C07|absent-transaction-has-position|transaction_sorted_posn|{}", if txs.is_empty() { "empty-block" } else { "non-empty-block" }),
                        format!("a transaction hash that is not in the block is reported at position {}", pos),
                        self.wit(w, ev, json!({"absent_hash": hex::encode(a), "block_transactions": txs.len()})),
                    );
                    break;
                }
            }
        }
        // ---- proofs for entries of the three sparse trees
        self.check_proofs(w, ev, "coins", &coins_t, &coins_c, hdr.coins_hash.0);
        self.check_proofs(w, ev, "pools", &pools_t, &pools_c, hdr.pools_hash.0);
        self.check_proofs(w, ev, "history", &hist_t, &hist_c, hdr.history_hash.0);
        // typed accessors agree with raw entries
        if let Some((k, c)) = ev.phases.last().and_then(|v| v.coin_entries().next().map(|(k, c)| (*k, c))) {
            if let Some(id) = w.known_ids.get(&k) {
                if tip.coin(*id) != Some(c) {
                    self.rep.violate("C07|accessor-disagrees|coin()|typed", "SealedState::coin disagrees with the raw tree entry".into(), self.wit(w, ev, json!(null)));
                }
            }
        }
        self.headers.push(hdr);
        if self.rep.samples.len() < 3 && ev.block_txs.len() >= 3 {
            self.rep.sample(json!({"height": ev.height, "origin": w.origin, "header": header_json(&hdr), "coins": coins_c.len(), "pools": pools_c.len(), "history": hist_c.len(), "stakes": st_c.len(), "txs": ev.block_txs.len()}));
        }
    }
}

/// Equal contents reached by different operation orders give equal roots (and the reference root).
fn order_independence(rep: &mut Report, r: &mut Rng, n_cases: u64) {
    for case in 0..n_cases {
        rep.eval();
        let n = 1 + r.usize(40);
        let coins: Vec<(CoinID, CoinDataHeight)> = (0..n)
            .map(|i| {
                (
                    CoinID { txhash: TxHash(HashVal(r.arr32())), index: (i % 7) as u8 },
                    CoinDataHeight {
                        coin_data: CoinData { covhash: melstructs::Address(HashVal([(i % 5) as u8; 32])), value: CoinValue(r.loguniform(120)), denom: if i % 3 == 0 { Denom::Sym } else { Denom::Mel }, additional_data: Bytes::from(r.bytes(i % 9)) },
                        height: BlockHeight(r.below(1000)),
                    },
                )
            })
            .collect();
        let extra: Vec<(CoinID, CoinDataHeight)> = (0..1 + r.usize(6)).map(|i| (CoinID { txhash: TxHash(HashVal(r.arr32())), index: 0 }, coins[i % coins.len()].1.clone())).collect();
        let tip906 = case % 2 == 0;
        let mut roots = vec![];
        for variant in 0..4 {
            let db = new_db();
            let mut m = CoinMapping::new(db.get_tree([0u8; 32]).unwrap());
            let mut order: Vec<usize> = (0..coins.len()).collect();
            if variant > 0 {
                r.shuffle(&mut order);
            }
            for (j, i) in order.iter().enumerate() {
                m.insert_coin(coins[*i].0, coins[*i].1.clone(), tip906);
                if variant >= 2 && j % 3 == 0 {
                    // detour: create a coin and spend it again
                    let (id, c) = &extra[j % extra.len()];
                    m.insert_coin(*id, c.clone(), tip906);
                    m.remove_coin(*id, tip906);
                }
                if variant == 3 && j % 5 == 0 {
                    // overwrite with the same content
                    m.insert_coin(coins[*i].0, coins[*i].1.clone(), tip906);
                }
            }
            let contents: BTreeMap<H, Vec<u8>> = m.inner().iter().map(|(k, v)| (k, v.to_vec())).collect();
            roots.push((m.root_hash().0, refsmt::sparse_root(&contents), contents.len()));
        }
        rep.nontrivial(fnv(&roots[0].0));
        rep.count("operation-order cases (4 insertion orders/detours each)");
        if roots.iter().any(|x| x.0 != roots[0].0) {
            rep.violate("C07|root-depends-on-operation-order|CoinMapping|permuted-inserts-and-detours", "equal coin sets reached by different insertion orders or create-then-spend detours have different roots".into(), json!({"roots": roots.iter().map(|x| hex::encode(x.0)).collect::<Vec<_>>(), "tip906": tip906}));
        }
        if roots.iter().any(|x| x.0 != x.1) {
            rep.violate("C07|root-not-function-of-contents|CoinMapping|standalone", "tree root differs from the reference Merkle root of its contents".into(), json!({"entries": roots[0].2}));
        }
        // pools mapping: same idea with typed mapping and delete
        let db = new_db();
        let mut a: SmtMapping<Cas, PoolKey, PoolState> = SmtMapping::new(db.get_tree([0u8; 32]).unwrap());
        let mut bm: SmtMapping<Cas, PoolKey, PoolState> = SmtMapping::new(db.get_tree([0u8; 32]).unwrap());
        let keys: Vec<PoolKey> = (0..1 + r.usize(6)).map(|_| PoolKey::new(Denom::Mel, Denom::Custom(TxHash(HashVal(r.arr32()))))).collect();
        let ps = |i: usize| PoolState { lefts: 10 + i as u128, rights: 20 + i as u128, price_accum: 0, liqs: 5 };
        for (i, k) in keys.iter().enumerate() {
            a.insert(*k, ps(i));
        }
        let ghost = PoolKey::new(Denom::Sym, Denom::Custom(TxHash(HashVal(r.arr32()))));
        for (i, k) in keys.iter().enumerate().rev() {
            bm.insert(ghost, ps(99));
            bm.insert(*k, ps(i + 1));
            bm.insert(*k, ps(i));
            bm.delete(&ghost);
        }
        if a.root_hash() != bm.root_hash() {
            rep.violate("C07|root-depends-on-operation-order|SmtMapping|insert-overwrite-delete", "equal pool maps reached by different operation sequences have different roots".into(), json!({"pools": keys.len()}));
        }
    }
}

/// Sibling states that differ in exactly one component must have different headers.
fn sensitivity(rep: &mut Report, r: &mut Rng, n_cases: u64) {
    for _ in 0..n_cases {
        let net = *r.pick(&[NetID::Custom02, NetID::Custom08, NetID::Testnet, NetID::Mainnet]);
        let height = 1_000_000 + r.below(1000);
        // the three scalars range over everything a u128 can hold (the fee pool is not bounded by the coin-value cap)
        let scalars: [u128; 12] = [0, 1, 1000, 1234567, (1 << 64) - 1, 1 << 64, (1 << 120) - 1, 1 << 120, (1 << 120) + 1, (1 << 120) + 777, 1 << 127, u128::MAX - 1];
        let (sp, sm, sd) = (*r.pick(&scalars), *r.pick(&scalars), (*r.pick(&scalars)).max(1));
        let base = || {
            let mut f = Fab::new(net, height);
            f.fee_pool = sp;
            f.fee_multiplier = sm;
            f.dosc_speed = sd;
            f.coins.push((CoinID { txhash: TxHash(HashVal([9u8; 32])), index: 0 }, CoinDataHeight { coin_data: CoinData { covhash: addr_of(&always_true_cov()), value: CoinValue(5000), denom: Denom::Mel, additional_data: Bytes::new() }, height: BlockHeight(height - 1) }));
            f.stakes.push((TxHash(HashVal([8u8; 32])), StakeDoc { pubkey: key_n(1, 1).pk, e_start: 0, e_post_end: 100, syms_staked: CoinValue(10) }));
            f
        };
        let h0 = base().build(&new_db()).header();
        rep.eval();
        if sp > (1 << 120) {
            rep.count("sibling pairs with a fee pool above 2^120");
        }
        if h0.fee_pool.0 != sp || h0.fee_multiplier != sm || h0.dosc_speed != sd {
            rep.violate(
                &format!("C07|header-misreports-scalar|header|{}", if h0.fee_pool.0 != sp { "fee-pool" } else if h0.fee_multiplier != sm { "fee-multiplier" } else { "dosc-speed" }),
                format!("the header of a state with fee pool {}, fee multiplier {}, DOSC speed {} carries {}, {}, {}", sp, sm, sd, h0.fee_pool.0, h0.fee_multiplier, h0.dosc_speed),
                json!({"net": format!("{:?}", net), "height": height, "header": header_json(&h0)}),
            );
        }
        let variants: Vec<(&str, Box<dyn Fn(&mut Fab)>)> = vec![
            ("coin-value", Box::new(|f: &mut Fab| f.coins[0].1.coin_data.value = CoinValue(5001))),
            ("coin-covhash", Box::new(|f: &mut Fab| f.coins[0].1.coin_data.covhash = melstructs::Address(HashVal([1u8; 32])))),
            ("coin-additional-data", Box::new(|f: &mut Fab| f.coins[0].1.coin_data.additional_data = Bytes::from_static(b"x"))),
            ("coin-height", Box::new(|f: &mut Fab| f.coins[0].1.height = BlockHeight(1))),
            ("extra-coin", Box::new(|f: &mut Fab| {
                let c = f.coins[0].1.clone();
                f.coins.push((CoinID { txhash: TxHash(HashVal([9u8; 32])), index: 1 }, c))
            })),
            ("pool-reserve", Box::new(|f: &mut Fab| f.pools.push((PoolKey::new(Denom::Mel, Denom::Sym), PoolState { lefts: 1_000_000_001, rights: 1_000_000_000, price_accum: 0, liqs: 1_000_000_000 })))),
            ("extra-pool", Box::new(|f: &mut Fab| f.pools.push((PoolKey::new(Denom::Mel, Denom::Custom(TxHash(HashVal([3u8; 32])))), PoolState { lefts: 1, rights: 1, price_accum: 0, liqs: 1 })))),
            ("stake-amount", Box::new(|f: &mut Fab| f.stakes[0].1.syms_staked = CoinValue(11))),
            ("stake-end", Box::new(|f: &mut Fab| f.stakes[0].1.e_post_end = 101)),
            ("extra-stake", Box::new(|f: &mut Fab| {
                let d = f.stakes[0].1;
                f.stakes.push((TxHash(HashVal([7u8; 32])), d))
            })),
            // boundary values: components whose value is zero still count
            ("stake-amount-zero", Box::new(|f: &mut Fab| f.stakes[0].1.syms_staked = CoinValue(0))),
            ("extra-stake-of-zero-SYM", Box::new(|f: &mut Fab| {
                let mut d = f.stakes[0].1;
                d.syms_staked = CoinValue(0);
                f.stakes.push((TxHash(HashVal([7u8; 32])), d))
            })),
            ("coin-value-zero", Box::new(|f: &mut Fab| f.coins[0].1.coin_data.value = CoinValue(0))),
            ("extra-coin-of-zero-value", Box::new(|f: &mut Fab| {
                let mut c = f.coins[0].1.clone();
                c.coin_data.value = CoinValue(0);
                f.coins.push((CoinID { txhash: TxHash(HashVal([9u8; 32])), index: 1 }, c))
            })),
            ("extra-pool-without-reserves", Box::new(|f: &mut Fab| f.pools.push((PoolKey::new(Denom::Mel, Denom::Custom(TxHash(HashVal([3u8; 32])))), PoolState { lefts: 0, rights: 0, price_accum: 0, liqs: 0 })))),
            ("fee-pool", Box::new(|f: &mut Fab| f.fee_pool += 1)),
            ("fee-multiplier", Box::new(|f: &mut Fab| f.fee_multiplier += 1)),
            ("dosc-speed", Box::new(|f: &mut Fab| f.dosc_speed += 1)),
        ];
        for (name, m) in variants {
            rep.eval();
            let mut f = base();
            m(&mut f);
            let h1 = f.build(&new_db()).header();
            rep.count("single-component sibling pairs");
            rep.nontrivial(fnv(format!("{}|{:?}|{}", name, net, height).as_bytes()));
            if h1 == h0 || h1.hash() == h0.hash() {
                rep.violate(&format!("C07|header-insensitive|header|{}", name), format!("two states that differ only in {} have the same header", name), json!({"net": format!("{:?}", net), "height": height, "header": header_json(&h0)}));
            }
        }
        // a transaction difference (same hash_nosigs, different sigs; and present/absent)
        let mut w = World::fabricated(r.next(), net, height, 0, 0);
        if let Some(tx) = w.gen_normal() {
            let mut tx2 = tx.clone();
            tx2.sigs.push(Bytes::from_static(b"extra"));
            let s0 = w.cur.clone().seal(None).header();
            let mut a = w.cur.clone();
            let mut bb = w.cur.clone();
            if a.apply_tx(&tx).is_ok() && bb.apply_tx(&tx2).is_ok() {
                let ha = a.seal(None).header();
                let hb = bb.seal(None).header();
                rep.eval();
                rep.count("single-component sibling pairs");
                if ha.transactions_hash == hb.transactions_hash || ha.transactions_hash == s0.transactions_hash {
                    rep.violate("C07|header-insensitive|header|transaction", "blocks that differ in a transaction (signature field, or presence) have the same transactions_hash".into(), json!({"net": format!("{:?}", net), "tx": tx_hex(&tx)}));
                }
            }
        }
    }
}

pub fn run(p: &Params) -> Report {
    let total = p.n(800, 20000);
    let mine = p.share(total);
    let mut rng = Rng::new(p.shard_seed() ^ 0xC07);
    let mut mon = C07 { rep: Report::new("C07"), case_seed: 0, headers: vec![], r: Rng::new(p.shard_seed() ^ 7) };
    mon.rep.rule = "cases = (a) every sealed state of random histories on all network classes (sparse and TIP-908 dense transaction commitments): height/previous/network chaining, history(h) for every recorded ancestor, coins/pools/history/stakes/transactions roots recomputed from the iterated contents with an independent reference Merkle function, inclusion proofs for entries (all, or 24 sampled per tree) verified by the library and by the reference verifier, tampered values and absent keys, every block transaction at its sorted position, and no position for hashes that are not in the block (all-zero, all-one, neighbours of present hashes); (b) equal coin/pool maps built by 4 different operation orders incl. create-then-spend detours and overwrites; (c) sibling fabricated states differing in exactly one of 19 components (incl. zero-valued stakes, coins and pools; fee pool, fee multiplier and DOSC speed drawn from 0 .. 2^128-2 incl. both sides of 2^64 and 2^120), whose headers must also carry the three scalars unchanged. Non-trivial = sealed state with transactions, each order case, each sibling pair; distinct by header hash / case".into();
    if p.only_case.is_none() {
        mon.rep.require("sealed states checked", p.n(1200, 24000));
        mon.rep.require("single-component sibling pairs", p.n(100, 2000));
        mon.rep.require("sibling pairs with a fee pool above 2^120", p.n(8, 200));
    }
    let mut r2 = Rng::new(p.shard_seed() ^ 0x707);
    order_independence(&mut mon.rep, &mut r2, p.share(p.n(1500, 40000)));
    sensitivity(&mut mon.rep, &mut r2, p.share(p.n(64, 2000)));
    for case in 0..mine {
        let case_seed = rng.next();
        if let Some(only) = p.only_case {
            if only != case_seed {
                continue;
            }
        }
        mon.case_seed = case_seed;
        mon.headers.clear();
        let mut w = if case % 3 == 0 {
            World::fabricated(case_seed, NetID::Custom08, 3 + case % 5, 0, 0)
        } else if case % 7 == 1 {
            // histories that cross the TIP-906 activation (the one-off count census)
            if case % 2 == 0 { World::fabricated(case_seed, NetID::Testnet, 494 + case % 5, 0, 0) } else { World::fabricated(case_seed, NetID::Mainnet, 829_993 + case % 6, 0, 0) }
        } else {
            World::random(case_seed)
        };
        if let Some(t) = &w.tip {
            // the state the world starts from is an ancestor too
            mon.headers.push(t.header());
        }
        w.profile.hostile = 5;
        w.profile.stake = 8;
        let blocks = 6 + (case % 10) as usize;
        run_history(&mut w, blocks, &mut [&mut mon]);
    }
    mon.rep
}
