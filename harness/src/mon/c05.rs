//! C05 - fees: minimum fee enforced, fee pool / tips / proposer reward accounted exactly.
use bytes::Bytes;
use melstructs::{BlockHeight, CoinDataHeight, CoinID, CoinValue, Denom, NetID, Transaction, TxKind};
use num::bigint::BigUint;
use num::Zero;
use serde_json::json;

use crate::gen::*;
use crate::model::{big_to_u128_sat, ref_min_fee, ref_tx_weight};
use crate::refvm::{self, Op};
use crate::report::Report;
use crate::rng::{fnv, Rng};
use crate::world::*;
use crate::Params;

pub struct C05 {
    pub rep: Report,
    pub case_seed: u64,
    /// (case, height) of the block being built and what its accepted transactions have paid above their minimum so far:
    /// "the block's tips" are those, nothing an earlier block left behind
    pub block: (u64, u64),
    pub block_tips: BigUint,
}

fn mclass(m: u128) -> &'static str {
    if m == 0 {
        "mult=0"
    } else if m < 65536 {
        "mult<2^16"
    } else if m < (1u128 << 41) {
        "mult<=2^40"
    } else {
        "mult>2^40"
    }
}

impl Monitor for C05 {
    fn on_batch(&mut self, w: &World, ev: &BatchEvent) {
        let mult = ev.pre.snap.fee_multiplier;
        if mult > (1u128 << 100) {
            self.rep.count("excluded: multiplier above 2^100 (saturation regime)");
            self.block = (self.case_seed, ev.pre.snap.height.0);
            self.block_tips = BigUint::from(ev.post.snap.tips);
            return;
        }
        self.rep.eval();
        let mins: Vec<BigUint> = ev.txs.iter().map(|t| ref_min_fee(t, mult)).collect();
        let any_below = ev.txs.iter().zip(mins.iter()).any(|(t, m)| BigUint::from(t.fee.0) < *m);
        let wit = crate::mon::c02::batch_witness(w, ev, self.case_seed);
        let mut fp = mult.to_be_bytes().to_vec();
        for t in &ev.txs {
            fp.extend_from_slice(&t.hash_nosigs().0 .0);
        }
        if mult > 0 {
            self.rep.nontrivial(fnv(&fp));
        }
        if self.block != (self.case_seed, ev.pre.snap.height.0) {
            self.block = (self.case_seed, ev.pre.snap.height.0);
            self.block_tips = BigUint::zero();
        }
        if BigUint::from(ev.pre.snap.tips) != self.block_tips && self.block_tips <= BigUint::from(u128::MAX) {
            let mut wj = wit.clone();
            wj["tips_in_state"] = json!(ev.pre.snap.tips.to_string());
            wj["paid_above_minimum_in_this_block_so_far"] = json!(self.block_tips.to_string());
            self.rep.violate("C05|tips-not-the-blocks-own|apply_tx_batch|before-batch", "the pending tips differ from what this block's accepted transactions have paid above their minimum fees".into(), wj);
            self.block_tips = BigUint::from(ev.pre.snap.tips);
        }
        match &ev.result {
            Ok(Ok(())) => {
                self.rep.count("accepted batches");
                if any_below {
                    let (t, m) = ev.txs.iter().zip(mins.iter()).find(|(t, m)| BigUint::from(t.fee.0) < **m).unwrap();
                    let mut wj = wit.clone();
                    wj["fee"] = json!(t.fee.0.to_string());
                    wj["reference_minimum"] = json!(m.to_string());
                    wj["reference_weight"] = json!(ref_tx_weight(t).to_string());
                    self.rep.violate(&format!("C05|accepted-below-minimum-fee|apply_tx_batch|{}", mclass(mult)), format!("a transaction paying {} was accepted although weight*multiplier/65536 = {}", t.fee.0, m), wj);
                    return;
                }
                let sum_min: BigUint = mins.iter().cloned().sum();
                let sum_fee: BigUint = ev.txs.iter().map(|t| BigUint::from(t.fee.0)).sum();
                let exp_pool = BigUint::from(ev.pre.snap.fee_pool) + &sum_min;
                let exp_tips = BigUint::from(ev.pre.snap.tips) + (&sum_fee - &sum_min);
                if exp_pool > BigUint::from(u128::MAX) || exp_tips > BigUint::from(u128::MAX) {
                    self.rep.count("excluded: fee pool or tips would saturate");
                    self.block_tips = BigUint::from(ev.post.snap.tips);
                    return;
                }
                self.block_tips += &sum_fee - &sum_min;
                for (t, m) in ev.txs.iter().zip(mins.iter()) {
                    let f = BigUint::from(t.fee.0);
                    if f == *m && !m.is_zero() {
                        self.rep.count("accepted transactions paying exactly the minimum (non-zero)");
                    } else if f > *m && !m.is_zero() {
                        self.rep.count("accepted transactions overpaying a non-zero minimum");
                    }
                }
                if BigUint::from(ev.post.snap.fee_pool) != exp_pool || BigUint::from(ev.post.snap.tips) != exp_tips {
                    let mut wj = wit.clone();
                    wj["expected"] = json!({"fee_pool": exp_pool.to_string(), "tips": exp_tips.to_string()});
                    wj["observed"] = json!({"fee_pool": ev.post.snap.fee_pool.to_string(), "tips": ev.post.snap.tips.to_string()});
                    wj["before"] = json!({"fee_pool": ev.pre.snap.fee_pool.to_string(), "tips": ev.pre.snap.tips.to_string()});
                    let which = if BigUint::from(ev.post.snap.fee_pool) != exp_pool { "fee-pool" } else { "tips" };
                    self.rep.violate(&format!("C05|fee-split-wrong|apply_tx_batch|{},{}", which, mclass(mult)), "fee pool / tips after the batch differ from pool + sum(min) / tips + sum(fee - min)".into(), wj);
                }
            }
            Ok(Err(e)) => {
                self.rep.count("rejected batches");
                if any_below {
                    self.rep.count("rejected batches with a member below the minimum fee");
                }
                let _ = e;
            }
            Err(_) => {}
        }
    }

    fn on_seal(&mut self, w: &World, ev: &SealEvent) {
        if ev.panic.is_some() || ev.phases.len() < 8 {
            return;
        }
        self.rep.eval();
        // what the block hands to its proposer are the tips of its own transactions
        if self.block != (self.case_seed, ev.height) {
            self.block = (self.case_seed, ev.height);
            self.block_tips = BigUint::zero();
        }
        if BigUint::from(ev.phases[0].snap.tips) != self.block_tips && self.block_tips <= BigUint::from(u128::MAX) && ev.phases[0].snap.fee_multiplier <= (1u128 << 100) {
            self.rep.violate(
                &format!("C05|tips-not-the-blocks-own|seal|{}", if self.block_tips.is_zero() { "block-without-tips" } else { "block-with-tips" }),
                format!("sealing starts with {} pending tips, but the transactions of this block paid {} above their minimum fees", ev.phases[0].snap.tips, self.block_tips),
                json!({"case_seed": self.case_seed, "origin": w.origin, "height": ev.height, "action": format!("{:?}", ev.action), "tips_at_seal_begin": ev.phases[0].snap.tips.to_string(), "paid_above_minimum_in_this_block": self.block_tips.to_string()}),
            );
        }
        if !self.block_tips.is_zero() && ev.action.is_none() {
            self.rep.count("blocks with tips sealed without an action");
        }
        let pre = &ev.phases[6];
        let post = &ev.phases[7];
        let rid = CoinID::proposer_reward(BlockHeight(ev.height));
        let key = coin_key(&rid);
        let coin = post.coins.get(&key).and_then(|v| match classify_coin_entry(v) {
            CoinEntry::Coin(c) => Some(c),
            _ => None,
        });
        let wit = json!({"case_seed": self.case_seed, "origin": w.origin, "height": ev.height, "action": format!("{:?}", ev.action),
            "before": {"fee_pool": pre.snap.fee_pool.to_string(), "tips": pre.snap.tips.to_string()},
            "after": {"fee_pool": post.snap.fee_pool.to_string(), "tips": post.snap.tips.to_string()},
            "reward_coin": coin.as_ref().map(|c| format!("{}:{}:{}", denom_name(&c.coin_data.denom), c.coin_data.value.0, hex::encode(&c.coin_data.covhash.0 .0[..6])))});
        match ev.action {
            None => {
                self.rep.count("blocks sealed without action");
                if pre.snap.tips != post.snap.tips || pre.snap.fee_pool != post.snap.fee_pool || pre.coins.get(&key) != post.coins.get(&key) {
                    self.rep.violate("C05|no-action-changes-fees|seal(None)|proposer-phase", "sealing without a proposer action changed the fee pool, the tips or the reward coin".into(), wit);
                }
            }
            Some(a) => {
                self.rep.count("blocks sealed with action");
                let base = pre.snap.fee_pool >> 16;
                let tips = pre.snap.tips;
                if tips > 0 {
                    self.rep.count("rewards that included tips");
                    let mut fp = ev.height.to_be_bytes().to_vec();
                    fp.extend_from_slice(&tips.to_be_bytes());
                    fp.extend_from_slice(&base.to_be_bytes());
                    self.rep.nontrivial(fnv(&fp));
                }
                let want_val = match base.checked_add(tips) {
                    Some(v) => v,
                    None => {
                        self.rep.count("excluded: reward would overflow");
                        return;
                    }
                };
                match &coin {
                    None => self.rep.violate("C05|reward-coin-missing|seal(Some)|proposer-phase", "no coin at the proposer-reward id after sealing with an action".into(), wit),
                    Some(c) => {
                        let ok = c.coin_data.value.0 == want_val && c.coin_data.denom == Denom::Mel && c.coin_data.covhash == a.reward_dest && c.height.0 == ev.height && c.coin_data.additional_data.is_empty();
                        if !ok {
                            let what = if c.coin_data.value.0 != want_val { "value" } else if c.coin_data.covhash != a.reward_dest { "destination" } else if c.height.0 != ev.height { "height" } else { "denomination-or-data" };
                            let mut wj = wit.clone();
                            wj["expected_value"] = json!(want_val.to_string());
                            self.rep.violate(&format!("C05|reward-coin-wrong|seal(Some)|{}", what), format!("reward coin should be {} MEL (pool>>16 = {} + tips {}) to the reward destination at height {}", want_val, base, tips, ev.height), wj);
                        } else if post.snap.fee_pool != pre.snap.fee_pool - base || post.snap.tips != 0 {
                            self.rep.violate("C05|pool-or-tips-not-debited|seal(Some)|proposer-phase", format!("after the reward fee pool should be {} and tips 0", pre.snap.fee_pool - base), wit);
                        }
                    }
                }
            }
        }
    }
}

/// covenants of different weight classes that a transaction can carry in addition to those it needs
fn extra_covenant(r: &mut Rng) -> Vec<u8> {
    match r.below(7) {
        6 => {
            // nested loops whose weight exceeds any 128-bit number (the weigher saturates): listing it next to
            // anything else must make the transaction unpayable, not cheap
            let k = 9 + r.usize(4);
            let mut v = vec![];
            for i in 0..k {
                v.push(Op::Loop(65535, (k - i) as u16));
            }
            v.push(Op::Noop);
            refvm::encode(&v).unwrap()
        }
        0 => r.bytes(r.clone().usize(40) + 1),                                   // most likely undecodable -> weight 0
        1 => refvm::encode(&[Op::Loop(1000, 3), Op::Hash(500), Op::Noop, Op::Mul]).unwrap(), // heavy loop
        2 => refvm::encode(&[Op::Loop(3, 4), Op::Loop(65535, 2), Op::SigEOk(65535), Op::Noop, Op::Dup]).unwrap(),
        3 => refvm::encode(&vec![Op::Noop; r.usize(200) + 1]).unwrap(),
        4 => vec![0xf2, 1, 0], // non-canonical PushIC: undecodable
        _ => refvm::encode(&[Op::Exp(255), Op::Hash(65535), Op::Loop(0, 5)]).unwrap(),
    }
}

/// Re-targets the fee of `tx` (whose last output is its MEL change) to minimum + `over` (or
/// minimum - `under`), keeping it balanced, and re-signs it.
fn retarget(w: &World, tx: &mut Transaction, mult: u128, over: i128) -> Option<()> {
    let inputs: Vec<(CoinID, CoinDataHeight)> = tx.inputs.iter().filter_map(|i| w.utxo.get(i).map(|c| (*i, c.clone()))).collect();
    if inputs.len() != tx.inputs.len() {
        return None;
    }
    let last = tx.outputs.len().checked_sub(1)?;
    if tx.outputs[last].denom != Denom::Mel {
        return None;
    }
    let budget = tx.fee.0.checked_add(tx.outputs[last].value.0)?;
    for _ in 0..6 {
        let min = big_to_u128_sat(&ref_min_fee(tx, mult));
        let want = if over >= 0 { min.checked_add(over as u128)? } else { min.checked_sub((-over) as u128)? };
        if want > budget || want > MAX_COINVAL || budget - want > MAX_COINVAL {
            return None;
        }
        if tx.fee.0 == want {
            break;
        }
        tx.fee = CoinValue(want);
        tx.outputs[last].value = CoinValue(budget - want);
    }
    w.sign(tx, &inputs);
    Some(())
}

pub fn run(p: &Params) -> Report {
    let total = p.n(1000, 25000);
    let mine = p.share(total);
    let mut rng = Rng::new(p.shard_seed() ^ 0xC05);
    let mut mon = C05 { rep: Report::new("C05"), case_seed: 0, block: (0, 0), block_tips: BigUint::zero() };
    mon.rep.rule = "cases = (a) every batch and sealed block of random histories at multipliers {0,1,2,100,10^6,2^40,2^64,2^100}; (b) threshold probes: a valid transaction (0-8 inputs, 1-60 outputs, extra covenants of every weight class incl. heavy loops, loops whose weight exceeds 2^128 and undecodable bytes) is re-targeted by fixpoint to pay exactly min-1, min, min+k (and once left with the fee it was generated with) and applied to a clone. Oracle: reference weight (serialized size + reference covenant weights + 1000/output - 1000/input, floored at 0) and min = floor(weight*multiplier/65536) in big integers; accepted => fee >= min; fee < min => rejected; fee pool grows by exactly sum(min) and tips by sum(fee-min); the pending tips before every batch and at the start of sealing are exactly what this block's accepted transactions paid above their minimum (nothing carried over from an earlier block); with an action the reward coin is pool>>16 + tips to the destination at the current height and pool/tips are debited by exactly that; without an action nothing moves. Non-trivial = multiplier > 0 (batches), tips > 0 (rewards), every threshold probe; distinct by members/values".into();
    if p.only_case.is_none() {
        mon.rep.require("threshold probes: min-1 rejected", p.n(150, 3000));
        mon.rep.require("threshold probes: exactly min accepted", p.n(150, 3000));
        mon.rep.require("threshold probes: padded variant below its own minimum", p.n(100, 2000));
        mon.rep.require("blocks sealed with action", p.n(300, 6000));
        mon.rep.require("blocks with tips sealed without an action", p.n(100, 2000));
    }
    for case in 0..mine {
        let case_seed = rng.next();
        if let Some(only) = p.only_case {
            if only != case_seed {
                continue;
            }
        }
        mon.case_seed = case_seed;
        let mut r = Rng::new(case_seed ^ 5);
        let mult = *r.pick(&FEE_MULTS);
        let net = *r.pick(&[NetID::Custom02, NetID::Custom08, NetID::Testnet, NetID::Mainnet]);
        let height = match net {
            NetID::Mainnet => *r.pick(&[1_100_000u64, 940_000, 1_000_000]),
            NetID::Testnet => *r.pick(&[1_000_000u64, 300]),
            _ => 20,
        };
        let pool = match r.below(3) {
            0 => r.below(70_000) as u128,
            _ => r.loguniform(80),
        };
        let mut w = World::fabricated(case_seed, net, height, mult, pool);
        w.profile.hostile = 10;
        w.profile.dependent_permille = 200;
        let blocks = 3 + r.usize(5);
        for _ in 0..blocks {
            if w.dead {
                break;
            }
            // threshold probes against clones of the current state
            for _ in 0..3 {
                let cur_mult = w.fee_multiplier();
                if let Some(mut tx) = w.gen_normal() {
                    // more outputs / extra covenants for weight variety
                    let extra_outs = *r.pick(&[0usize, 0, 1, 5, 30, 60]);
                    let last = tx.outputs.len() - 1;
                    let change = tx.outputs[last].clone();
                    for _ in 0..extra_outs {
                        let mut o = change.clone();
                        o.value = CoinValue(0);
                        tx.outputs.insert(last, o);
                    }
                    for _ in 0..r.usize(3) {
                        tx.covenants.push(Bytes::from(extra_covenant(&mut r)));
                    }
                    for (over, name) in [(-1i128, "min-1"), (0, "exactly min"), (1 + r.below(1000) as i128, "min+k"), (i128::MIN, "fee as generated")] {
                        let mut t = tx.clone();
                        if over == i128::MIN {
                            // no re-targeting (the minimum may be unpayable): just re-sign with the extra covenants
                            let inputs: Vec<(CoinID, CoinDataHeight)> = t.inputs.iter().filter_map(|i| w.utxo.get(i).map(|c| (*i, c.clone()))).collect();
                            if inputs.len() != t.inputs.len() {
                                continue;
                            }
                            w.sign(&mut t, &inputs);
                        } else if retarget(&w, &mut t, cur_mult, over).is_none() {
                            continue;
                        }
                        let min = ref_min_fee(&t, cur_mult);
                        let below = BigUint::from(t.fee.0) < min;
                        let mut st = w.cur.clone();
                        let res = crate::guard::guarded(|| st.apply_tx(&t));
                        mon.rep.eval();
                        let mut fp = t.hash_nosigs().0 .0.to_vec();
                        fp.extend_from_slice(&cur_mult.to_be_bytes());
                        mon.rep.nontrivial(fnv(&fp));
                        let wit = json!({"case_seed": case_seed, "origin": w.origin, "probe": name, "multiplier": cur_mult.to_string(), "fee": t.fee.0.to_string(), "reference_min": min.to_string(),
                            "reference_weight": ref_tx_weight(&t).to_string(), "tx": tx_brief(&t), "tx_hex": tx_hex(&t), "result": format!("{:?}", res.as_ref().map_err(|e| e.message.clone()))});
                        match res {
                            Ok(Ok(())) => {
                                if below {
                                    mon.rep.violate(&format!("C05|accepted-below-minimum-fee|apply_tx|threshold-probe,{}", mclass(cur_mult)), format!("fee {} < minimum {} accepted", t.fee.0, min), wit);
                                } else {
                                    mon.rep.count(&format!("threshold probes: {} accepted", name));
                                    let after = st.verif_snap("probe");
                                    let before = w.cur.verif_snap("probe");
                                    let exp_pool = BigUint::from(before.fee_pool) + &min;
                                    let exp_tips = BigUint::from(before.tips) + (BigUint::from(t.fee.0) - &min);
                                    if exp_pool <= BigUint::from(u128::MAX) && (BigUint::from(after.fee_pool) != exp_pool || BigUint::from(after.tips) != exp_tips) {
                                        mon.rep.violate(&format!("C05|fee-split-wrong|apply_tx|threshold-probe,{}", mclass(cur_mult)), format!("pool {} -> {} (expected {}), tips {} -> {} (expected {})", before.fee_pool, after.fee_pool, exp_pool, before.tips, after.tips, exp_tips), wit);
                                    }
                                }
                            }
                            Ok(Err(e)) => {
                                if below {
                                    mon.rep.count(&format!("threshold probes: {} rejected", name));
                                } else if matches!(e, melstf::StateError::InsufficientFees(_)) {
                                    mon.rep.violate(&format!("C05|rejected-at-or-above-minimum-fee|apply_tx|threshold-probe,{}", mclass(cur_mult)), format!("fee {} >= reference minimum {} rejected as insufficient", t.fee.0, min), wit);
                                } else {
                                    mon.rep.count("threshold probes rejected for another reason");
                                }
                            }
                            Err(_) => mon.rep.count("threshold probes that panicked (left to C09)"),
                        }
                        // the same transaction with bulkier signature data (an extra, unused signature slot): the same
                        // signature-free hash, a larger serialized size, so a larger minimum - whatever has been weighed before
                        if name == "exactly min" || name == "min+k" {
                            let mut t2 = t.clone();
                            let pad = *r.pick(&[64usize, 65, 200, 1000, 5000]);
                            t2.sigs.push(Bytes::from(vec![0x5au8; pad]));
                            let min2 = ref_min_fee(&t2, cur_mult);
                            let below2 = BigUint::from(t2.fee.0) < min2;
                            let mut st2 = w.cur.clone();
                            let res2 = crate::guard::guarded(|| st2.apply_tx(&t2));
                            mon.rep.eval();
                            mon.rep.count("threshold probes: signature-padded variant of a transaction weighed just before");
                            if below2 {
                                mon.rep.count("threshold probes: padded variant below its own minimum");
                            }
                            let wit2 = json!({"case_seed": case_seed, "origin": w.origin, "probe": format!("{}+padded-signatures", name), "multiplier": cur_mult.to_string(), "fee": t2.fee.0.to_string(), "reference_min": min2.to_string(),
                                "reference_min_of_the_unpadded_variant": min.to_string(), "padding_bytes": pad, "tx_hex": tx_hex(&t2), "result": format!("{:?}", res2.as_ref().map_err(|e| e.message.clone()))});
                            match res2 {
                                Ok(Ok(())) => {
                                    if below2 {
                                        mon.rep.violate(&format!("C05|accepted-below-minimum-fee|apply_tx|signature-padded-variant,{}", mclass(cur_mult)), format!("fee {} < minimum {} accepted (the variant with smaller signature data has minimum {})", t2.fee.0, min2, min), wit2);
                                    } else {
                                        let after = st2.verif_snap("probe");
                                        let before = w.cur.verif_snap("probe");
                                        let exp_pool = BigUint::from(before.fee_pool) + &min2;
                                        let exp_tips = BigUint::from(before.tips) + (BigUint::from(t2.fee.0) - &min2);
                                        if exp_pool <= BigUint::from(u128::MAX) && (BigUint::from(after.fee_pool) != exp_pool || BigUint::from(after.tips) != exp_tips) {
                                            mon.rep.violate(&format!("C05|fee-split-wrong|apply_tx|signature-padded-variant,{}", mclass(cur_mult)), format!("pool {} -> {} (expected {}), tips {} -> {} (expected {})", before.fee_pool, after.fee_pool, exp_pool, before.tips, after.tips, exp_tips), wit2);
                                        }
                                    }
                                }
                                Ok(Err(e)) => {
                                    if !below2 && matches!(e, melstf::StateError::InsufficientFees(_)) {
                                        mon.rep.violate(&format!("C05|rejected-at-or-above-minimum-fee|apply_tx|signature-padded-variant,{}", mclass(cur_mult)), format!("fee {} >= reference minimum {} rejected as insufficient", t2.fee.0, min2), wit2);
                                    }
                                }
                                Err(_) => mon.rep.count("threshold probes that panicked (left to C09)"),
                            }
                        }
                        if mon.rep.samples.len() < 3 && name == "exactly min" && cur_mult > 0 {
                            mon.rep.sample(json!({"probe": name, "multiplier": cur_mult.to_string(), "fee": t.fee.0.to_string(), "reference_weight": ref_tx_weight(&t).to_string(), "outputs": t.outputs.len(), "inputs": t.inputs.len(), "covenants": t.covenants.len()}));
                        }
                    }
                }
            }
            let nb = 1 + w.rng.usize(3);
            for _ in 0..nb {
                let (txs, labels) = w.gen_batch();
                if txs.is_empty() {
                    continue;
                }
                let ev = w.apply_batch(txs, labels);
                mon.on_batch(&w, &ev);
                if w.dead {
                    break;
                }
            }
            if w.dead {
                break;
            }
            let action = w.gen_action();
            let ev = w.seal_next(action);
            mon.on_seal(&w, &ev);
        }
    }
    mon.rep
}
