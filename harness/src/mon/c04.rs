//! C04 - a coin is spent only when its covenant approves that very spend.
use std::collections::HashMap;

use bytes::Bytes;
use melstructs::{
    Address, BlockHeight, CoinData, CoinDataHeight, CoinID, CoinValue, Denom, NetID, Transaction, TxHash, TxKind,
};
use serde_json::json;
use tmelcrypt::HashVal;

use crate::conv::ops_brief;
use crate::guard::guarded;
use crate::model::ref_authorised;
use crate::refvm::{self, Op};
use crate::report::Report;
use crate::rng::{fnv, Rng};
use crate::world::*;
use crate::Params;

fn pushi(n: u128) -> Op {
    let mut a = [0u8; 32];
    a[16..].copy_from_slice(&n.to_be_bytes());
    Op::PushI(a)
}

#[derive(Clone, Debug)]
enum Fam {
    SigNew(usize),
    SigLegacy(usize),
    HashLock(Vec<u8>),
    TimeLock(u64),
    Deadline(u64),
    IndexBound(u8),
    ValueAbove(u128),
    ValueBelow(u128),
    AddDataFirstByte(u8),
    ParentHeightIs(u64),
    ParentIndexIs(u8),
    SelfHashCheck,
    OutputCount(u8),
    Random(Vec<Op>),
    /// small integers pushed, then Loop(n, 2){ Bez(2); Noop }; Noop: the first zero popped breaks out of the loop
    /// (two past its body) and whatever is then on top decides
    LoopBreak(Vec<u8>, u16),
    /// raw covenant bytes cut inside a literal, extended by a cut literal, or holding an unassigned opcode
    Mangled(Vec<u8>),
    AlwaysTrue,
}

fn fam_name(f: &Fam) -> &'static str {
    match f {
        Fam::SigNew(_) => "ed25519-new",
        Fam::SigLegacy(_) => "ed25519-legacy",
        Fam::HashLock(_) => "hash-lock",
        Fam::TimeLock(_) => "time-lock",
        Fam::Deadline(_) => "deadline",
        Fam::IndexBound(_) => "index-bound",
        Fam::ValueAbove(_) => "value-bound",
        Fam::ValueBelow(_) => "value-cap",
        Fam::AddDataFirstByte(_) => "additional-data-bound",
        Fam::ParentHeightIs(_) => "parent-height-bound",
        Fam::ParentIndexIs(_) => "parent-index-bound",
        Fam::SelfHashCheck => "self-hash",
        Fam::OutputCount(_) => "output-count-bound",
        Fam::Random(_) => "random-program",
        Fam::LoopBreak(..) => "loop-with-break",
        Fam::Mangled(b) => {
            if refvm::decode(b).is_none() {
                "undecodable-bytes"
            } else {
                "mangled-but-decodable"
            }
        }
        Fam::AlwaysTrue => "always-true",
    }
}

fn cov_of(f: &Fam, keys: &[Key]) -> Vec<u8> {
    match f {
        Fam::SigNew(k) => ed25519_new_cov(&keys[*k].pk),
        Fam::SigLegacy(k) => ed25519_legacy_cov(&keys[*k].pk),
        Fam::HashLock(pre) => {
            let h = blake3::hash(pre);
            refvm::encode(&[pushi(5), Op::LoadImm(0), Op::VRef, Op::Hash(64), Op::BtoI, Op::PushI(*h.as_bytes()), Op::Eql]).unwrap()
        }
        // previous header's height > T :  Lt pops x (top) = T, y = height -> T < height
        Fam::TimeLock(t) => refvm::encode(&[pushi(2), Op::LoadImm(10), Op::VRef, pushi(*t as u128), Op::Lt]).unwrap(),
        // previous header's height < K : Gt pops x (top) = K, y = height -> K > height
        Fam::Deadline(k) => refvm::encode(&[pushi(2), Op::LoadImm(10), Op::VRef, pushi(*k as u128), Op::Gt]).unwrap(),
        Fam::IndexBound(k) => refvm::encode(&[Op::LoadImm(9), pushi(*k as u128), Op::Eql]).unwrap(),
        // value > v : Gt pops x (top) = value, y = v
        Fam::ValueAbove(v) => refvm::encode(&[pushi(*v), Op::LoadImm(5), Op::Gt]).unwrap(),
        // value < k : Lt pops x (top) = value, y = k
        Fam::ValueBelow(k) => refvm::encode(&[pushi(*k), Op::LoadImm(5), Op::Lt]).unwrap(),
        Fam::AddDataFirstByte(b) => refvm::encode(&[pushi(0), Op::LoadImm(7), Op::BRef, pushi(*b as u128), Op::Eql]).unwrap(),
        Fam::ParentHeightIs(h) => refvm::encode(&[Op::LoadImm(8), pushi(*h as u128), Op::Eql]).unwrap(),
        Fam::ParentIndexIs(i) => refvm::encode(&[Op::LoadImm(3), pushi(*i as u128), Op::Eql]).unwrap(),
        // hash of the covenant that is running equals slot 4: take covenant bytes from tx.covenants[0]
        Fam::SelfHashCheck => refvm::encode(&[pushi(0), pushi(4), Op::LoadImm(0), Op::VRef, Op::VRef, Op::Hash(1000), Op::BtoI, Op::LoadImm(4), Op::BtoI, Op::Eql]).unwrap(),
        Fam::OutputCount(n) => refvm::encode(&[pushi(2), Op::LoadImm(0), Op::VRef, Op::VLength, pushi(*n as u128), Op::Eql]).unwrap(),
        Fam::Random(ops) => refvm::encode(ops).unwrap(),
        Fam::LoopBreak(vals, iters) => {
            let mut ops: Vec<Op> = vals.iter().map(|v| pushi(*v as u128)).collect();
            ops.extend([Op::Loop(*iters, 2), Op::Bez(2), Op::Noop, Op::Noop]);
            refvm::encode(&ops).unwrap()
        }
        Fam::Mangled(b) => b.clone(),
        Fam::AlwaysTrue => always_true_cov(),
    }
}

struct Input {
    fam: Fam,
    id: CoinID,
    cdh: CoinDataHeight,
}

pub fn run(p: &Params) -> Report {
    let mut rep = Report::new("C04");
    rep.rule = "cases = (state, spending transaction) in which everything except authorisation is valid by construction (coins exist, balanced, fee paid, unlocked, well-formed): 1-8 inputs drawn from covenant families ed25519 legacy/new (right/wrong key, right/wrong slot, signature over another transaction, fields tampered after signing, truncated), hash-lock on data, time-lock and deadline on the previous header's height, spender-index-, value-, additional-data-, parent-height-, parent-index-, output-count-bound, self-hash, loops that are left by a conditional jump, and random programs; inputs may share one covenant hash while differing in environment, down to twin coins that differ only in coin id and input position; covenants may be missing, corrupted after signing, or the coin may be locked to the hash of bytes that are not a program at all (a literal running past the end of a standard covenant or standing alone, an unassigned opcode, a missing operand). The spending transaction is a plain payment, a faucet-kind transaction with inputs (off mainnet) or a pool-kind transaction whose data names no pool; input values include 0. One case in 150 has 250-309 inputs whose questionable ones sit around and beyond position 255. One spend in four is applied as a member of a two-transaction batch whose other (valid) member lists every covenant the spend's inputs need, half of those with one covenant dropped from the spend itself. Oracle: the reference interpreter on the reference environment heap for every input: accepted => every input authorised; for the two standard signature covenants also all authorised => accepted. Non-trivial = >= 2 inputs, or an environment-dependent covenant, or a tampered transaction; distinct by transaction hash".into();
    let total = p.n(100_000, 2_500_000);
    let mine = p.share(total);
    let mut rng = Rng::new(p.shard_seed() ^ 0xC04);
    let keys: Vec<Key> = (0..4).map(|i| key_n(p.seed, 40 + i)).collect();
    for case in 0..mine {
        let case_seed = rng.next();
        if let Some(only) = p.only_case {
            if only != case_seed {
                continue;
            }
        }
        let mut r = Rng::new(case_seed);
        let net = *r.pick(&[NetID::Custom02, NetID::Custom08, NetID::Testnet, NetID::Mainnet]);
        let height = 1_000_000 + r.below(50);
        let mult = *r.pick(&[0u128, 0, 0, 1000]);
        // one case in 150 is long: 250-309 inputs, all but the last few anyone-can-spend or correctly signed, so that the
        // inputs whose authorisation is in question sit around and beyond position 255 (the environment carries the
        // position as one byte). Their coins are ERG, which the outputs do not mention: consumed, whatever they hold
        let long = case % 150 == 7;
        let long_tail = 1 + r.usize(6);
        let n_in = if long { 250 + r.usize(60) } else { 1 + r.usize(if case % 5 == 0 { 8 } else { 3 }) };
        // choose families; with some probability reuse the previous input's covenant (shared hash, different environment)
        let mut inputs: Vec<Input> = vec![];
        for i in 0..n_in {
            let mut twin_of: Option<usize> = None;
            let fam = if long && i + long_tail < n_in {
                // (the standard signature covenant looks for its signature in the slot numbered by the one-byte
                // position, so beyond 255 only the anyone-can-spend covenant keeps the head authorised)
                if i > 255 || r.chance(1, 2) {
                    Fam::AlwaysTrue
                } else {
                    Fam::SigNew(r.usize(4))
                }
            } else if i > 0 && r.chance(2, 5) && !long {
                let j = r.usize(i);
                if r.chance(1, 2) {
                    // a twin: same covenant, value, denomination, additional data and creation height; only the
                    // coin id and the position among the inputs differ
                    twin_of = Some(j);
                }
                inputs[j].fam.clone()
            } else {
                match r.below(15) {
                    14 => {
                        // a coin locked to the hash of bytes that are not a program: a literal running past the
                        // end (alone, at the end of a standard covenant, or appended to one) or an unassigned opcode
                        let base = match r.below(4) {
                            0 => ed25519_new_cov(&keys[r.usize(4)].pk),
                            1 => ed25519_legacy_cov(&keys[r.usize(4)].pk),
                            2 => always_true_cov(),
                            _ => vec![],
                        };
                        let mut b = base.clone();
                        match r.below(5) {
                            0 => {
                                let len = 1 + r.below(64) as usize;
                                let have = r.usize(len);
                                b.extend([0xf0u8, len as u8]);
                                b.extend(r.bytes(have));
                            }
                            1 => {
                                let have = r.usize(32);
                                b.push(0xf1);
                                b.extend(r.bytes(have));
                            }
                            2 => {
                                let cut = 1 + r.usize(b.len().min(40).max(1));
                                b.truncate(b.len().saturating_sub(cut));
                                if b.is_empty() {
                                    b = vec![0xf0, 9, 1];
                                }
                            }
                            3 => b.push(*r.pick(&[0x08u8, 0x0a, 0x0f, 0x19, 0x2f, 0x3f, 0x45, 0x57, 0x60, 0xa3, 0xb2, 0xc3, 0xee, 0xff])),
                            _ => {
                                // operand of the last instruction missing
                                b.push(*r.pick(&[0x30u8, 0x42, 0x43, 0xa0, 0xa1, 0xb0, 0xf2]));
                            }
                        }
                        Fam::Mangled(b)
                    }
                    0 | 1 => Fam::SigNew(r.usize(4)),
                    2 => Fam::SigLegacy(r.usize(4)),
                    3 => Fam::HashLock(r.bytes(1 + r.clone().usize(40))),
                    4 => {
                        if r.chance(1, 2) {
                            Fam::TimeLock(height - 3 + r.below(6))
                        } else {
                            Fam::Deadline(height - 2 + r.below(5))
                        }
                    }
                    5 | 6 => Fam::IndexBound(r.below(n_in as u64 + 1) as u8),
                    // bounds on the coin's value, small and beyond 64 bits (values go up to 2^120)
                    7 => match r.below(4) {
                        0 => Fam::ValueAbove(1000 + r.below(1000) as u128),
                        1 => Fam::ValueBelow(1000 + r.below(2000) as u128),
                        2 => Fam::ValueBelow((1u128 << 64) + r.below(3000) as u128),
                        _ => Fam::ValueAbove((1u128 << 64) + r.below(3000) as u128),
                    },
                    8 => Fam::AddDataFirstByte(r.below(3) as u8),
                    9 => Fam::ParentHeightIs(height - 1 - r.below(2)),
                    10 => Fam::ParentIndexIs(r.below(3) as u8),
                    11 => Fam::OutputCount(1 + r.below(2) as u8),
                    12 => {
                        if r.chance(1, 2) {
                            Fam::Random((0..1 + r.usize(8)).map(|_| crate::mon::c12::random_op(&mut r, false)).collect())
                        } else {
                            let n = 2 + r.usize(3);
                            Fam::LoopBreak((0..n).map(|_| *r.pick(&[0u8, 0, 1, 5])).collect(), 2 + r.below(2) as u16)
                        }
                    }
                    _ => {
                        if r.chance(1, 2) {
                            Fam::SelfHashCheck
                        } else {
                            Fam::AlwaysTrue
                        }
                    }
                }
            };
            let cov = cov_of(&fam, &keys);
            let denom = if long && i > 0 {
                Denom::Erg
            } else if i == 0 || r.chance(2, 3) {
                Denom::Mel
            } else {
                Denom::Sym
            };
            let value = match r.below(6) {
                0 => 500 + r.below(1000) as u128,
                1 => 1500 + r.below(1000) as u128,
                2 => 1 << 40,
                // values that need more than 64 bits (the covenant sees them as 256-bit integers)
                3 => (1u128 << 64) + r.below(4000) as u128,
                4 => (1u128 << (65 + r.below(50))) + r.below(4000) as u128,
                // an empty coin still needs its covenant's consent
                _ if i > 0 => 0,
                _ => 700 + r.below(1000) as u128,
            } + if i == 0 && r.chance(1, 2) { 1 << 50 } else { 0 };
            let ad = match r.below(4) {
                0 => vec![],
                n => vec![(n - 1) as u8, 7],
            };
            let id = CoinID { txhash: TxHash(HashVal(r.arr32())), index: r.below(3) as u8 };
            let cdh = match twin_of {
                Some(j) => inputs[j].cdh.clone(),
                None => CoinDataHeight {
                    coin_data: CoinData { covhash: addr_of(&cov), value: CoinValue(value), denom, additional_data: Bytes::from(ad) },
                    height: BlockHeight(height - 1 - r.below(2)),
                },
            };
            inputs.push(Input { fam, id, cdh });
        }
        let mut fab = Fab::new(net, height);
        fab.fee_multiplier = mult;
        for i in &inputs {
            fab.coins.push((i.id, i.cdh.clone()));
        }
        // a coin for a neighbour transaction (used when the spend is applied as a member of a batch)
        let with_neighbour = r.chance(1, 4);
        let nb_id = CoinID { txhash: TxHash(HashVal(r.arr32())), index: 0 };
        let nb_cdh = CoinDataHeight { coin_data: CoinData { covhash: addr_of(&always_true_cov()), value: CoinValue(1 << 60), denom: Denom::Mel, additional_data: Bytes::new() }, height: BlockHeight(height - 1) };
        fab.coins.push((nb_id, nb_cdh.clone()));
        let db = new_db();
        let sealed = fab.build(&db);
        let last_header = sealed.header();
        let st = sealed.next_unsealed();
        // ---- transaction
        let mut covs: Vec<Vec<u8>> = vec![];
        for i in &inputs {
            let c = cov_of(&i.fam, &keys);
            if !covs.contains(&c) {
                covs.push(c);
            }
        }
        let hashlock_pre: Option<Vec<u8>> = inputs.iter().find_map(|i| if let Fam::HashLock(p) = &i.fam { Some(p.clone()) } else { None });
        let data = match (&hashlock_pre, r.below(5)) {
            (Some(p), 0) => {
                let mut q = p.clone();
                q[0] ^= 1;
                q
            }
            (Some(p), _) => p.clone(),
            (None, _) => r.bytes(r.clone().usize(10)),
        };
        let mut tot: HashMap<Denom, u128> = HashMap::new();
        for i in &inputs {
            *tot.entry(i.cdh.coin_data.denom).or_default() += i.cdh.coin_data.value.0;
        }
        let dest = Address(HashVal(r.arr32()));
        let mut outs: Vec<CoinData> = vec![];
        if let Some(v) = tot.get(&Denom::Sym) {
            outs.push(CoinData { covhash: dest, value: CoinValue(*v), denom: Denom::Sym, additional_data: Bytes::new() });
        }
        outs.push(CoinData { covhash: dest, value: CoinValue(0), denom: Denom::Mel, additional_data: Bytes::new() });
        if r.chance(1, 3) {
            outs.push(CoinData { covhash: dest, value: CoinValue(0), denom: Denom::Mel, additional_data: Bytes::new() });
        }
        let mel_idx = outs.iter().position(|o| o.denom == Denom::Mel).unwrap();
        // authorisation does not depend on what kind of transaction spends the coin: besides plain payments, kinds
        // whose other rules these transactions satisfy trivially (pool kinds with data that names no pool; the
        // faucet kind, which may carry inputs off mainnet)
        let kind = match r.below(10) {
            0 | 1 if net != NetID::Mainnet => TxKind::Faucet,
            2 => *r.pick(&[TxKind::Swap, TxKind::LiqDeposit, TxKind::LiqWithdraw]),
            _ => TxKind::Normal,
        };
        let mut tx = Transaction {
            kind,
            inputs: inputs.iter().map(|i| i.id).collect(),
            outputs: outs,
            fee: CoinValue(0),
            covenants: covs.iter().map(|c| Bytes::from(c.clone())).collect(),
            data: Bytes::from(data),
            sigs: vec![],
        };
        // signature slots sized first (length matters for the fee), then fee fixpoint, then real signatures
        let n_slots = inputs.len();
        tx.sigs = vec![Bytes::from(vec![0u8; 64]); n_slots];
        let in_mel = tot[&Denom::Mel];
        for _ in 0..5 {
            let min = crate::model::big_to_u128_sat(&crate::model::ref_min_fee(&tx, mult));
            tx.fee = CoinValue(min);
            tx.outputs[mel_idx].value = CoinValue(in_mel.saturating_sub(min));
        }
        // sign
        let msg = tx.hash_nosigs();
        let tamper = if long {
            // leave the long head alone: no tampering, or one covenant dropped, or an output changed after signing
            *r.pick(&[11u64, 11, 11, 6, 4])
        } else if with_neighbour && r.chance(1, 2) {
            6
        } else {
            r.below(12)
        };
        let mut sigs: Vec<Vec<u8>> = vec![vec![]; n_slots];
        for (idx, i) in inputs.iter().enumerate() {
            match &i.fam {
                Fam::SigNew(k) => {
                    let key = if tamper == 0 { &keys[(*k + 1) % 4] } else { &keys[*k] };
                    let slot = if tamper == 1 { (idx + 1) % n_slots } else { idx };
                    if sigs[slot].is_empty() || tamper != 1 {
                        sigs[slot] = key.sk.sign(&msg.0 .0);
                    }
                }
                Fam::SigLegacy(k) => {
                    let key = if tamper == 0 { &keys[(*k + 1) % 4] } else { &keys[*k] };
                    if sigs[0].is_empty() {
                        sigs[0] = key.sk.sign(&msg.0 .0);
                    }
                }
                Fam::Mangled(_) => {
                    // give the spend every chance: a well-formed signature by a known key in its slot
                    if sigs[idx].is_empty() {
                        sigs[idx] = keys[idx % 4].sk.sign(&msg.0 .0);
                    }
                }
                _ => {}
            }
        }
        if tamper == 2 {
            // signatures over a different message
            let other = tmelcrypt::hash_single(b"some other transaction");
            for (idx, i) in inputs.iter().enumerate() {
                if let Fam::SigNew(k) | Fam::SigLegacy(k) = &i.fam {
                    sigs[idx] = keys[*k].sk.sign(&other.0);
                }
            }
        }
        if tamper == 3 {
            for s in sigs.iter_mut() {
                s.truncate(63);
            }
        }
        tx.sigs = sigs.into_iter().map(Bytes::from).collect();
        let mut tampered = tamper <= 3;
        match tamper {
            4 => {
                // tamper with an output after signing (keeps the balance)
                tx.outputs[0].covhash = Address(HashVal(r.arr32()));
                tampered = true;
            }
            5 => {
                if hashlock_pre.is_none() {
                    tx.data = Bytes::from(r.bytes(3));
                    tampered = true;
                }
            }
            6 => {
                // drop one covenant
                if !tx.covenants.is_empty() {
                    let i = r.usize(tx.covenants.len());
                    tx.covenants.remove(i);
                    tampered = true;
                }
            }
            7 => {
                // corrupt one covenant's bytes (hash no longer matches / undecodable)
                if !tx.covenants.is_empty() {
                    let i = r.usize(tx.covenants.len());
                    let mut b = tx.covenants[i].to_vec();
                    let pos = r.usize(b.len());
                    b[pos] ^= 0x40;
                    tx.covenants[i] = Bytes::from(b);
                    tampered = true;
                }
            }
            8 => {
                // reorder inputs after signing (indexes and slots move; changes the hash too)
                tx.inputs.reverse();
                tampered = true;
            }
            _ => {}
        }
        // ---- reference verdict per input (in the order the transaction now lists them)
        let by_id: HashMap<CoinID, &Input> = inputs.iter().map(|i| (i.id, i)).collect();
        let mut all = Some(true);
        let mut first_bad: Option<(usize, &'static str)> = None;
        let mut no_claim = false;
        for (idx, id) in tx.inputs.iter().enumerate() {
            let inp = by_id[id];
            match ref_authorised(&tx, idx, id, &inp.cdh, &last_header) {
                Some(true) => {}
                Some(false) => {
                    all = Some(false);
                    if first_bad.is_none() {
                        first_bad = Some((idx, fam_name(&inp.fam)));
                    }
                }
                None => no_claim = true,
            }
        }
        if no_claim && all == Some(true) {
            all = None;
        }
        // balance must still hold for the test to isolate authorisation: recheck cheaply
        let mut st2 = st.clone();
        let txc = tx.clone();
        // a transaction is authorised by the covenants IT carries: as a member of a batch, next to a (valid) neighbour
        // that lists every covenant this transaction's inputs need - including the ones it dropped - the verdict
        // must be the same
        let neighbour = if with_neighbour {
            let mut nb = Transaction {
                kind: TxKind::Normal,
                inputs: vec![nb_id],
                outputs: vec![CoinData { covhash: dest, value: CoinValue(0), denom: Denom::Mel, additional_data: Bytes::new() }],
                fee: CoinValue(0),
                covenants: std::iter::once(Bytes::from(always_true_cov())).chain(covs.iter().map(|c| Bytes::from(c.clone()))).collect(),
                data: Bytes::new(),
                sigs: vec![],
            };
            for _ in 0..5 {
                let min = crate::model::big_to_u128_sat(&crate::model::ref_min_fee(&nb, mult));
                nb.fee = CoinValue(min);
                nb.outputs[0].value = CoinValue((1u128 << 60).saturating_sub(min));
            }
            Some(nb)
        } else {
            None
        };
        // the neighbour alone must be fine (otherwise the batch says nothing about the spend)
        if let Some(nb) = &neighbour {
            let mut probe = st.clone();
            let nbc = nb.clone();
            if !matches!(guarded(move || probe.apply_tx(&nbc)), Ok(Ok(()))) {
                rep.count("neighbour transaction refused on its own (case skipped)");
                continue;
            }
        }
        let nb_first = r.chance(1, 2);
        let site = if neighbour.is_some() { "apply_tx_batch" } else { "apply_tx" };
        let res = guarded(move || match neighbour {
            None => st2.apply_tx(&txc),
            Some(nb) => {
                let batch = if nb_first { vec![nb, txc] } else { vec![txc, nb] };
                st2.apply_tx_batch(&batch)
            }
        });
        if with_neighbour {
            rep.count("spends applied in a batch next to a neighbour that lists their covenants");
            if tamper == 6 {
                rep.count("spends missing a covenant that a batch neighbour lists");
            }
        }
        rep.eval();
        let env_dep = inputs.iter().any(|i| !matches!(i.fam, Fam::AlwaysTrue | Fam::SigLegacy(_) | Fam::HashLock(_)));
        if n_in >= 2 || env_dep || tampered {
            rep.nontrivial(fnv(&tx.hash_nosigs().0 .0));
        }
        let shared = {
            let mut seen = std::collections::HashSet::new();
            inputs.iter().any(|i| !seen.insert(i.cdh.coin_data.covhash))
        };
        let wit = json!({"case_seed": case_seed, "kind": format!("{}", kind), "net": format!("{:?}", net), "height": height + 1, "tx_hex": tx_hex(&tx), "tx": tx_brief(&tx), "tamper": tamper, "applied_through": site, "neighbour_first": nb_first,
            "inputs": tx.inputs.iter().enumerate().map(|(idx, id)| { let i = by_id[id]; json!({"index": idx, "family": fam_name(&i.fam), "covenant": refvm::decode(&cov_of(&i.fam, &keys)).map(|o| ops_brief(&o)), "value": i.cdh.coin_data.value.0.to_string(), "additional_data": hex::encode(&i.cdh.coin_data.additional_data), "coin_height": i.cdh.height.0, "reference_authorised": ref_authorised(&tx, idx, id, &i.cdh, &last_header)}) }).collect::<Vec<_>>(),
            "result": format!("{:?}", res.as_ref().map_err(|e| e.message.clone()))});
        match res {
            Err(_) => rep.count("apply_tx panicked (left to C09)"),
            Ok(Ok(())) => {
                rep.count("accepted");
                if tx.inputs.len() > 256 {
                    rep.count("accepted with more than 256 inputs");
                }
                if all == Some(false) {
                    let (idx, fam) = first_bad.unwrap();
                    let earlier_same = tx.inputs[..idx].iter().any(|id| by_id[id].cdh.coin_data.covhash == by_id[&tx.inputs[idx]].cdh.coin_data.covhash);
                    let cls = if earlier_same { "shares-covenant-hash-with-an-earlier-input" } else if tampered { "tampered-transaction" } else { "first-use-of-covenant" };
                    let cls = if kind == TxKind::Normal { cls.to_string() } else { format!("{},spender-kind={}", cls, kind) };
                    let cls = if with_neighbour { format!("{},batch-neighbour-lists-the-covenants", cls) } else { cls };
                    rep.violate(&format!("C04|unauthorised-spend-accepted|{}|{},{}", site, fam, cls), format!("input {} ({}) is not authorised by its covenant in its own environment, yet the transaction was accepted", idx, fam), wit);
                } else if shared {
                    rep.count("accepted with inputs sharing a covenant hash (all authorised)");
                }
            }
            Ok(Err(e)) => {
                rep.count("rejected");
                if all == Some(false) {
                    rep.count(&format!("rejected with an unauthorised input: {}", first_bad.map(|x| x.1).unwrap_or("?")));
                    if first_bad.map(|x| x.0 > 255).unwrap_or(false) {
                        rep.count("rejected with the first unauthorised input beyond position 255");
                    }
                }
                if all == Some(true) {
                    let only_std = inputs.iter().all(|i| matches!(i.fam, Fam::SigNew(_) | Fam::SigLegacy(_) | Fam::AlwaysTrue));
                    if only_std {
                        rep.violate("C04|authorised-standard-spend-rejected|apply_tx|ed25519", format!("every input carries a valid signature in its slot but the transaction was rejected: {:?}", e), wit);
                    } else {
                        rep.count("rejected although the reference authorises every input (non-standard covenant; observed, C10's domain)");
                        rep.note(&format!("rejected {:?} although reference authorises all inputs, case_seed={}", e, case_seed));
                    }
                }
            }
        }
        if rep.samples.len() < 4 && n_in >= 3 && shared {
            rep.sample(json!({"inputs": inputs.iter().map(|i| fam_name(&i.fam)).collect::<Vec<_>>(), "shared_covenant_hash": shared, "tamper": tamper, "reference_all_authorised": all}));
        }
    }
    if p.only_case.is_none() {
        rep.require("accepted", p.n(2000, 40000));
        rep.require("rejected", p.n(2000, 40000));
        rep.require("accepted with inputs sharing a covenant hash (all authorised)", p.n(100, 2000));
        rep.require("spends missing a covenant that a batch neighbour lists", p.n(500, 10000));
        rep.require("accepted with more than 256 inputs", p.n(8, 200));
        rep.require("rejected with the first unauthorised input beyond position 255", p.n(10, 200));
    }
    rep
}
