//! C08 - restart equivalence: a state rebuilt from its block behaves identically.
use melstf::SealedState;
use melstructs::{Block, NetID};
use novasmt::Database;
use serde_json::json;
use stdcode::StdcodeSerializeExt;
use tip911_stakeset::StakeSet;

use crate::gen::*;
use crate::guard::guarded;
use crate::report::Report;
use crate::rng::{fnv, Rng};
use crate::world::*;
use crate::Params;

struct Mirror {
    cur: Unsealed,
    born_height: u64,
    class: String,
    steps: u32,
    alive: bool,
}

pub struct C08 {
    pub rep: Report,
    pub case_seed: u64,
    mirrors: Vec<Mirror>,
    max_steps: u32,
}

impl C08 {
    fn wit(&self, w: &World, m: &Mirror, extra: serde_json::Value) -> serde_json::Value {
        json!({"case_seed": self.case_seed, "origin": w.origin, "restart_after_height": m.born_height, "restart_class": m.class, "steps_after_restart": m.steps, "detail": extra})
    }
}

fn restart(w: &World, tip: &Sealed) -> Result<Sealed, String> {
    let blk = tip.to_block();
    let bytes = blk.stdcode();
    let blk2: Block = stdcode::deserialize(&bytes).map_err(|e| format!("block does not deserialize: {:?}", e))?;
    let stakes2 = StakeSet::new(tip.raw_stakes().iter().map(|(k, v)| (*k, *v)));
    let db2: Db = Database::new(w.db.storage().deep_copy());
    guarded(move || SealedState::from_block(&blk2, &stakes2, &db2)).map_err(|p| p.message)
}

impl Monitor for C08 {
    fn on_batch(&mut self, w: &World, ev: &BatchEvent) {
        let accepted = ev.accepted();
        if ev.result.is_err() {
            return;
        }
        let mut viols = vec![];
        for m in self.mirrors.iter_mut().filter(|m| m.alive) {
            self.rep.eval();
            self.rep.count("batches mirrored on a restarted lineage");
            let txs = ev.txs.clone();
            let cur = &mut m.cur;
            match guarded(|| cur.apply_tx_batch(&txs)) {
                Ok(r) => {
                    if r.is_ok() != accepted {
                        viols.push((m.born_height, m.class.clone(), m.steps, format!("original {} / restarted {:?}", if accepted { "accepted" } else { "rejected" }, r)));
                        m.alive = false;
                    }
                }
                Err(p) => {
                    viols.push((m.born_height, m.class.clone(), m.steps, format!("restarted lineage panicked: {}", p.message)));
                    m.alive = false;
                }
            }
        }
        for (born, class, steps, d) in viols {
            let sig = format!("C08|accept-reject-diverges|apply_tx_batch|{}", class);
            self.rep.violate(&sig, d.clone(), json!({"case_seed": self.case_seed, "origin": w.origin, "restart_after_height": born, "steps_after_restart": steps, "labels": ev.labels, "txs_hex": ev.txs.iter().map(tx_hex).collect::<Vec<_>>()}));
        }
    }

    fn on_seal(&mut self, w: &World, ev: &SealEvent) {
        let hdr = match (&ev.header, &ev.panic) {
            (Some(h), None) => *h,
            _ => {
                self.mirrors.clear();
                return;
            }
        };
        let mut viols = vec![];
        for m in self.mirrors.iter_mut().filter(|m| m.alive) {
            self.rep.eval();
            self.rep.count("blocks mirrored on a restarted lineage");
            let cur = m.cur.clone();
            let action = ev.action;
            match guarded(move || {
                let s = cur.seal(action);
                let h = s.header();
                (h, s.next_unsealed())
            }) {
                Ok((h, next)) => {
                    m.steps += 1;
                    if h != hdr {
                        let mut diff = vec![];
                        if h.coins_hash != hdr.coins_hash {
                            diff.push("coins_hash");
                        }
                        if h.fee_pool != hdr.fee_pool {
                            diff.push("fee_pool");
                        }
                        if h.fee_multiplier != hdr.fee_multiplier {
                            diff.push("fee_multiplier");
                        }
                        if h.dosc_speed != hdr.dosc_speed {
                            diff.push("dosc_speed");
                        }
                        if h.pools_hash != hdr.pools_hash {
                            diff.push("pools_hash");
                        }
                        if h.stakes_hash != hdr.stakes_hash {
                            diff.push("stakes_hash");
                        }
                        if h.history_hash != hdr.history_hash || h.previous != hdr.previous {
                            diff.push("history/previous");
                        }
                        if h.transactions_hash != hdr.transactions_hash {
                            diff.push("transactions_hash");
                        }
                        viols.push((m.born_height, m.class.clone(), m.steps, diff.join("+"), header_json(&hdr), header_json(&h)));
                        m.alive = false;
                    } else {
                        m.cur = next;
                        if m.steps >= self.max_steps {
                            m.alive = false;
                            self.rep.count("restart points followed to the end of their continuation");
                        }
                    }
                }
                Err(p) => {
                    viols.push((m.born_height, m.class.clone(), m.steps, format!("panic:{}", p.message), header_json(&hdr), json!(null)));
                    m.alive = false;
                }
            }
        }
        for (born, class, steps, diff, a, b) in viols {
            let first = diff.split('+').next().unwrap_or("").to_string();
            let sig = format!("C08|header-diverges|{}|{}", first, class);
            self.rep.violate(&sig, format!("{} block(s) after restarting at height {} the headers differ in {}", steps, born, diff), json!({"case_seed": self.case_seed, "origin": w.origin, "restart_after_height": born, "restart_class": class, "steps_after_restart": steps, "original": a, "restarted": b, "action": format!("{:?}", ev.action)}));
        }
        self.mirrors.retain(|m| m.alive);
        // restart at this boundary
        if let Some(tip) = &w.tip {
            let tips_pending = ev.phases.last().map(|v| v.snap.tips > 0).unwrap_or(false);
            let next_h = ev.height + 1;
            let mut parts = vec![];
            parts.push(if ev.action.is_some() { "with-action" } else { "no-action" });
            if tips_pending {
                parts.push("pending-tips");
            }
            if next_h % STAKE_EPOCH == 0 {
                parts.push("epoch-boundary");
            }
            if legacy_net(w.net) && (next_h == 500 || [TIP_901, TIP_902, TIP_906, TIP_909, TIP_909A].contains(&next_h)) {
                parts.push("tip-activation");
            }
            if ev.block_txs.is_empty() {
                parts.push("empty-block");
            }
            let class = parts.join(",");
            self.rep.count(&format!("restart points: {}", class));
            if ev.block_txs.len() > 64 {
                self.rep.count("restart points after a block of more than 64 transactions");
                self.rep.max("max:transactions in a block before a restart point", ev.block_txs.len() as u64);
            }
            if w.prev_tip.as_ref().map(|p| p.header().dosc_speed < hdr.dosc_speed).unwrap_or(false) {
                self.rep.count("restart points right after a mint raised the recorded DOSC speed");
            }
            match restart(w, tip) {
                Ok(restored) => {
                    self.rep.eval();
                    let mut fp = hdr.hash().0.to_vec();
                    fp.extend_from_slice(class.as_bytes());
                    self.rep.nontrivial(fnv(&fp));
                    {
                        let orig_tx: std::collections::BTreeSet<[u8; 32]> = tip.transactions().map(|t| tmelcrypt::hash_single(&stdcode::serialize(t).unwrap()).0).collect();
                        let rest_tx: std::collections::BTreeSet<[u8; 32]> = restored.transactions().map(|t| tmelcrypt::hash_single(&stdcode::serialize(t).unwrap()).0).collect();
                        if restored.proposer_action() != tip.proposer_action() || orig_tx != rest_tx {
                            self.rep.violate(&format!("C08|restored-state-differs|from_block|{}", if orig_tx != rest_tx { "transactions" } else { "proposer-action" }), "the state rebuilt from its own block reports other transactions or another proposer action than the original".into(), json!({"case_seed": self.case_seed, "origin": w.origin, "height": ev.height, "original_transactions": orig_tx.len(), "restored_transactions": rest_tx.len()}));
                        }
                    }
                    if restored.header() != hdr {
                        self.rep.violate(&format!("C08|restored-header-differs|from_block|{}", class), "the state rebuilt from its own block does not have the block's header".into(), json!({"case_seed": self.case_seed, "origin": w.origin, "height": ev.height, "original": header_json(&hdr), "restored": header_json(&restored.header())}));
                    } else {
                        match guarded(|| restored.next_unsealed()) {
                            Ok(cur) => self.mirrors.push(Mirror { cur, born_height: ev.height, class, steps: 0, alive: true }),
                            Err(p) => self.rep.violate(&format!("C08|restored-state-panics|next_unsealed|{}", class), p.message.clone(), json!({"case_seed": self.case_seed, "origin": w.origin, "height": ev.height})),
                        }
                    }
                }
                Err(m) => self.rep.violate(&format!("C08|restart-fails|from_block|{}", class), m, json!({"case_seed": self.case_seed, "origin": w.origin, "height": ev.height})),
            }
            if self.rep.samples.len() < 3 && tips_pending {
                self.rep.sample(json!({"restart_after_height": ev.height, "class": parts, "origin": w.origin, "store_nodes_copied": w.db.storage().len(), "block_bytes": tip.to_block().stdcode().len()}));
            }
        }
        let _ = C08::wit;
    }
}

pub fn run(p: &Params) -> Report {
    let total = p.n(600, 15000);
    let mine = p.share(total);
    let mut rng = Rng::new(p.shard_seed() ^ 0xC08);
    let mut mon = C08 { rep: Report::new("C08"), case_seed: 0, mirrors: vec![], max_steps: 5 };
    mon.rep.rule = "cases = restart points: after every sealed block of random histories the state is serialized with to_block + stdcode, the stake set rebuilt from its iterator and every node of the content-addressed store copied into a fresh store; from_block on those gives a second lineage that is fed the identical next 5 blocks (all batches, valid and hostile, and proposer actions). After every step both lineages must agree on accept/reject and on the whole header. Fee pools range up to 2^126 (at, just below and above the largest coin value). Some histories contain blocks of 65-200 transactions (counted). Some histories contain ERG mints that do enough work to raise the recorded DOSC speed (counted). Restart points are classified (with/without action, pending tips, empty block, epoch boundary, TIP activation on testnet 499->500 and fabricated mainnet activation heights). Non-trivial = every restart point; distinct by (header hash, class)".into();
    if p.only_case.is_none() {
        mon.rep.require("blocks mirrored on a restarted lineage", p.n(3000, 60000));
        mon.rep.require("restart points followed to the end of their continuation", p.n(300, 6000));
        mon.rep.require("restart points right after a mint raised the recorded DOSC speed", p.n(5, 100));
        mon.rep.require("restart points after a block of more than 64 transactions", p.n(20, 400));
    }
    for case in 0..mine {
        let case_seed = rng.next();
        if let Some(only) = p.only_case {
            if only != case_seed {
                continue;
            }
        }
        mon.case_seed = case_seed;
        mon.mirrors.clear();
        let mut r = Rng::new(case_seed ^ 8);
        let mult = *r.pick(&[0u128, 0, 100, 1_000_000]);
        // fee pools are plain u128 accumulators: also at, just below and above the largest coin value
        let pool = *r.pick(&[1u128 << 40, 1 << 40, 1 << 40, 70_000, (1 << 120) - 3, 1 << 120, (1 << 120) + 12_345, 1 << 126]);
        if pool > MAX_COINVAL {
            mon.rep.count("histories whose fee pool exceeds the largest coin value");
        }
        let mut w = match case % 8 {
            0 => World::fabricated(case_seed, NetID::Testnet, 496 + r.below(3), mult, pool),
            1 => World::fabricated(case_seed, NetID::Mainnet, *r.pick(&[1_047_996u64, 949_997, 829_997, 1_199_996]), mult, pool),
            2 => World::fabricated_staked(case_seed, NetID::Custom02, 199_996 + r.below(3), mult, pool, 4),
            4 => World::fabricated_staked(case_seed, *r.pick(&[NetID::Custom02, NetID::Custom08, NetID::Mainnet]), (5 + r.below(3)) * STAKE_EPOCH + *r.pick(&[0u64, 1, 7, 199_995, 199_997]), mult, pool, 5),
            3 => World::fabricated(case_seed, NetID::Custom08, 3, mult, 0),
            _ => World::random(case_seed),
        };
        w.profile.hostile = 12;
        w.profile.stake = 10;
        if matches!(case % 8, 2 | 5 | 7) {
            // some histories contain a mint that raises the recorded DOSC speed before the restart points
            w.profile.fast_mint_permille = 500;
            w.profile.doscmint = 25;
        }
        if matches!(case % 8, 3 | 5 | 6) {
            // some histories contain blocks of 65-200 transactions (the restored transaction set is rebuilt from the block)
            w.profile.big_block_permille = 70;
        }
        let blocks = 7 + (case % 8) as usize;
        run_history(&mut w, blocks, &mut [&mut mon]);
    }
    mon.rep
}
