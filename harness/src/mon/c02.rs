//! C02 - exact UTXO transition; rejection is a no-op.
use std::collections::{BTreeMap, HashSet};

use melstructs::{CoinDataHeight, CoinID, Transaction};
use serde_json::json;
use stdcode::StdcodeSerializeExt;

use crate::gen::*;
use crate::model::{self, BatchCtx, Why};
use crate::report::Report;
use crate::rng::{fnv, Rng};
use crate::world::*;
use crate::Params;

pub struct C02 {
    pub rep: Report,
    pub case_seed: u64,
}

pub fn has_dependency(txs: &[Transaction]) -> bool {
    let hashes: HashSet<_> = txs.iter().map(|t| t.hash_nosigs()).collect();
    txs.iter().any(|t| t.inputs.iter().any(|i| hashes.contains(&i.txhash)))
}

pub fn child_before_parent(txs: &[Transaction]) -> bool {
    for (i, t) in txs.iter().enumerate() {
        for inp in &t.inputs {
            if txs[i + 1..].iter().any(|p| p.hash_nosigs() == inp.txhash) {
                return true;
            }
        }
    }
    false
}

pub fn why_class(w: &Why) -> &'static str {
    match w {
        Why::Malformed => "malformed",
        Why::MissingInput => "missing-input",
        Why::RepeatedInput => "repeated-input",
        Why::CreatesValue(_) => "outputs-exceed-inputs",
        Why::Unbalanced(_) => "outputs-below-inputs",
        Why::Unauthorised(_) => "unauthorised-input",
        Why::Locked => "locked-coin",
        Why::FeeTooLow => "fee-below-minimum",
        Why::MainnetFaucet => "mainnet-faucet",
        Why::DuplicateFaucet => "duplicate-faucet",
        Why::BadStake => "bad-stake-document",
    }
}

pub fn batch_witness(w: &World, ev: &BatchEvent, case_seed: u64) -> serde_json::Value {
    json!({
        "case_seed": case_seed,
        "origin": w.origin,
        "height": ev.pre.snap.height.0,
        "labels": ev.labels,
        "txs": ev.txs.iter().map(tx_brief).collect::<Vec<_>>(),
        "txs_hex": ev.txs.iter().map(tx_hex).collect::<Vec<_>>(),
        "result": format!("{:?}", ev.result.as_ref().map_err(|p| p.message.clone())),
    })
}

pub fn must_reject(w: &World, ev: &BatchEvent, check_covenants: bool) -> Result<usize, Why> {
    let pre = &ev.pre;
    let prior = |id: &CoinID| -> Option<CoinDataHeight> {
        pre.coins.get(&coin_key(id)).and_then(|v| match classify_coin_entry(v) {
            CoinEntry::Coin(c) => Some(c),
            _ => None,
        })
    };
    let has_marker = |h: &melstructs::TxHash| pre.coins.contains_key(&coin_key(&faucet_marker(*h)));
    let cx = BatchCtx {
        net: w.net,
        height: pre.snap.height.0,
        fee_multiplier: pre.snap.fee_multiplier,
        last_header: &ev.last_header,
        prior: &prior,
        stakes: &ev.stakes_before,
        has_marker: &has_marker,
    };
    model::ref_batch_must_reject(&ev.txs, &cx, check_covenants)
}

impl Monitor for C02 {
    fn on_batch(&mut self, w: &World, ev: &BatchEvent) {
        let rep = &mut self.rep;
        rep.eval();
        let dep = has_dependency(&ev.txs);
        let hostile = ev.labels.iter().any(|l| l.contains("hostile"));
        let cls = if dep {
            if child_before_parent(&ev.txs) { "dependent-batch,child-before-parent" } else { "dependent-batch,parent-first" }
        } else if ev.txs.len() > 1 {
            "independent-batch"
        } else {
            "single-tx"
        };
        let mut fpdata = vec![];
        for t in &ev.txs {
            fpdata.extend_from_slice(&t.hash_nosigs().0 .0);
        }
        let fp = fnv(&fpdata);
        if ev.txs.len() >= 2 || dep || hostile {
            rep.nontrivial(fp);
        }
        match &ev.result {
            Err(_) => {
                rep.count("panicked (left to C09)");
            }
            Ok(Ok(())) => {
                rep.count("accepted");
                rep.count(&format!("accepted:{}", cls));
                match must_reject(w, ev, true) {
                    Err(why) => {
                        let sig = format!("C02|accepted-invalid-batch|apply_tx_batch|{}", why_class(&why));
                        rep.violate(&sig, format!("accepted although {:?}", why), batch_witness(w, ev, self.case_seed));
                    }
                    Ok(nc) => {
                        if nc > 0 {
                            rep.count("covenant outside reference domain (no claim)");
                        }
                    }
                }
                // exact transition
                let (removed, inserted) = model::ref_transition(&ev.txs, w.net, ev.pre.snap.height.0);
                let mut expect: BTreeMap<[u8; 32], Vec<u8>> = BTreeMap::new();
                for (k, v) in ev.pre.coins.iter() {
                    if let CoinEntry::Coin(_) = classify_coin_entry(v) {
                        if !removed.contains(k) {
                            expect.insert(*k, v.clone());
                        }
                    }
                }
                for (k, c) in inserted {
                    expect.insert(k, c.stdcode());
                }
                let mut got: BTreeMap<[u8; 32], Vec<u8>> = BTreeMap::new();
                for (k, v) in ev.post.coins.iter() {
                    match classify_coin_entry(v) {
                        CoinEntry::Coin(_) => {
                            got.insert(*k, v.clone());
                        }
                        CoinEntry::Count(_) => {}
                        CoinEntry::Unknown(_) => {
                            rep.violate(
                                "C02|post-set-differs|apply_tx_batch|undecodable-entry",
                                "coin tree holds an entry that is neither a coin nor a count".into(),
                                batch_witness(w, ev, self.case_seed),
                            );
                        }
                    }
                }
                if got != expect {
                    let missing: Vec<String> = expect.iter().filter(|(k, _)| !got.contains_key(*k)).map(|(k, _)| describe(w, k)).collect();
                    let extra: Vec<String> = got.iter().filter(|(k, _)| !expect.contains_key(*k)).map(|(k, _)| describe(w, k)).collect();
                    let changed: Vec<String> = got.iter().filter(|(k, v)| expect.get(*k).map(|e| e != *v).unwrap_or(false)).map(|(k, _)| describe(w, k)).collect();
                    let kind = if !extra.is_empty() { "spent-or-unexpected-coin-present" } else if !missing.is_empty() { "coin-missing" } else { "coin-contents-differ" };
                    let sig = format!("C02|post-set-differs|apply_tx_batch|{},{}", kind, cls);
                    let mut wit = batch_witness(w, ev, self.case_seed);
                    wit["missing"] = json!(missing);
                    wit["extra"] = json!(extra);
                    wit["changed"] = json!(changed);
                    rep.violate(&sig, format!("coin set after the batch differs from prior - inputs + outputs: {} missing, {} extra, {} changed", missing.len(), extra.len(), changed.len()), wit);
                }
                if rep.samples.len() < rep.max_samples && (dep || ev.txs.len() > 2) {
                    rep.sample(json!({"batch": ev.labels, "class": cls, "accepted": true, "coins_before": ev.pre.coins.len(), "coins_after": ev.post.coins.len()}));
                }
            }
            Ok(Err(e)) => {
                rep.count("rejected");
                if hostile {
                    rep.count("rejected:with-hostile-member");
                } else {
                    rep.count(&format!("rejected:no-hostile-member:{:?}", std::mem::discriminant(e)).chars().take(60).collect::<String>());
                    rep.note(&format!("non-hostile batch rejected: {:?} labels={:?}", e, ev.labels).chars().take(300).collect::<String>());
                    if std::env::var("MELVERIF_DEBUG").is_ok() {
                        eprintln!("DEBUG non-hostile rejection {:?}\n{}", e, serde_json::to_string_pretty(&batch_witness(w, ev, self.case_seed)).unwrap());
                        for t in &ev.txs { for i in &t.inputs { eprintln!("  input {:?} -> {:?}", i, ev.pre.coins.get(&coin_key(i)).map(|v| classify_coin_entry(v))); } }
                    }
                }
                let mut a = ev.pre.snap.clone();
                let mut b = ev.post.snap.clone();
                a.label = "";
                b.label = "";
                if a != b || ev.pre.coins != ev.post.coins || ev.pre.pools != ev.post.pools {
                    rep.violate(
                        "C02|rejection-not-noop|apply_tx_batch|state-changed",
                        format!("state changed across a rejected batch: {:?} -> {:?}", a, b),
                        batch_witness(w, ev, self.case_seed),
                    );
                }
                if rep.samples.len() < rep.max_samples && hostile && ev.txs.len() > 1 {
                    rep.sample(json!({"batch": ev.labels, "class": cls, "accepted": false, "error": format!("{:?}", e)}));
                }
            }
        }
    }
}

fn describe(w: &World, k: &[u8; 32]) -> String {
    match w.known_ids.get(k) {
        Some(id) => format!("{}-{}", hex::encode(&id.txhash.0 .0[..6]), id.index),
        None => format!("key:{}", hex::encode(&k[..6])),
    }
}

pub fn run(p: &Params) -> Report {
    let total = p.n(2000, 50000);
    let mine = p.share(total);
    let mut rng = Rng::new(p.shard_seed());
    let mut mon = C02 { rep: Report::new("C02"), case_seed: 0 };
    mon.rep.rule = "cases = batches applied to random histories (all tx kinds, 1-8 members, dependent members in generation/reversed/shuffled order, at most one hostile mutation per batch); after each batch the whole coin tree is compared with prior - inputs + outputs (reference map) and, on rejection, every observable component with its value before; non-trivial = batch with >= 2 members, an intra-batch dependency or a hostile member; distinct by the members' transaction hashes".into();
    if p.only_case.is_none() {
        mon.rep.require("accepted", p.n(300, 6000));
        mon.rep.require("rejected", p.n(60, 1200));
        mon.rep.require("distinct_nontrivial", p.n(300, 6000));
    }
    for case in 0..mine {
        let case_seed = rng.next();
        if let Some(only) = p.only_case {
            if only != case_seed {
                continue;
            }
        }
        mon.case_seed = case_seed;
        let mut w = World::random(case_seed);
        w.profile.dependent_permille = 500;
        w.profile.hostile = 35;
        let blocks = 4 + (case % 8) as usize;
        run_history(&mut w, blocks, &mut [&mut mon]);
    }
    mon.rep
}
