//! C10 - MelVM executes exactly the specified semantics, deterministically.
use std::collections::HashMap;

use bytes::Bytes;
use melstructs::{
    Address, BlockHeight, CoinData, CoinDataHeight, CoinID, CoinValue, Denom, Header, NetID, Transaction,
    TxHash, TxKind,
};
use melvm::opcode::OpCode;
use melvm::{Covenant, CovenantEnv, Value, VerifExecutor};
use num::bigint::BigUint;
use serde_json::json;
use tmelcrypt::HashVal;

use crate::conv::*;
use crate::guard::{guarded, msg_class, site};
use crate::model;
use crate::refvm::{self, Op, Outcome, RefVm, StepErr, RV};
use crate::report::Report;
use crate::rng::{fnv, Rng};
use crate::world::*;
use crate::Params;

fn pushi(n: u128) -> Op {
    let mut a = [0u8; 32];
    a[16..].copy_from_slice(&n.to_be_bytes());
    Op::PushI(a)
}

fn heaps(r: &mut Rng) -> Vec<Vec<RV>> {
    vec![
        vec![],
        vec![RV::Int(BigUint::from(5u32)), RV::Bytes(vec![1, 2, 3]), RV::Vector(vec![RV::Int(BigUint::from(7u32)), RV::Bytes(vec![9])])],
        vec![RV::Vector(vec![]), RV::Int(refvm::two256() - BigUint::from(1u32)), RV::Bytes(r.bytes(32))],
    ]
}

fn result_of_impl(ops: &[Op], heap: &[RV]) -> Result<Option<RV>, String> {
    let iops: Vec<OpCode> = ops.iter().map(op_to_impl).collect();
    let cov = Covenant::from_ops(&iops);
    let hv: Vec<Value> = heap.iter().map(value_from_rv).collect();
    guarded(move || cov.debug_execute(&hv).map(|v| rv_from_value(&v))).map_err(|p| format!("{} @ {}", p.message, site(&p.location)))
}

fn ref_heap_of(heap: &[RV]) -> HashMap<u16, RV> {
    heap.iter().enumerate().map(|(i, v)| (i as u16, v.clone())).collect()
}

fn op_class(ops: &[Op], pc: usize) -> String {
    match ops.get(pc) {
        Some(o) => {
            let s = format!("{:?}", o);
            s.split('(').next().unwrap_or("?").to_string()
        }
        None => "end".into(),
    }
}

/// Compares the public result and, in lockstep through the hooked executor, every intermediate
/// machine state (pc, stack, heap) with the reference.
fn compare(rep: &mut Report, ops: &[Op], heap: &[RV], class: &str, lockstep: bool) {
    rep.eval();
    let (ref_out, ref_steps) = refvm::run(ops, ref_heap_of(heap));
    if let Outcome::OutOfDomain(w) = &ref_out {
        rep.count(&format!("excluded: {}", w));
        return;
    }
    let wit = |extra: serde_json::Value| json!({"program": ops_brief(ops), "program_hex": refvm::encode(ops).map(hex::encode), "heap": heap.iter().map(rv_brief).collect::<Vec<_>>(), "detail": extra});
    match result_of_impl(ops, heap) {
        Err(m) => {
            rep.violate(&format!("C10|execute-panics|Covenant::debug_execute|{}|{}", class, msg_class(&m)), m.clone(), wit(json!(null)));
            return;
        }
        Ok(got) => {
            let want = match &ref_out {
                Outcome::Value(v) => Some(v.clone()),
                _ => None,
            };
            if got != want {
                // find the first instruction class involved for the signature
                let mut vm = RefVm::new(ops, ref_heap_of(heap));
                let mut last = 0usize;
                while vm.pc < ops.len() {
                    last = vm.pc;
                    if vm.step().is_err() {
                        break;
                    }
                }
                rep.violate(
                    &format!("C10|result-differs|Covenant::debug_execute|{}|last-op={}", class, op_class(ops, last)),
                    format!("implementation {:?} vs reference {:?}", got.as_ref().map(rv_brief), want.as_ref().map(rv_brief)),
                    wit(json!({"reference_steps": ref_steps})),
                );
                return;
            }
            if want.is_some() {
                rep.count("programs that ran to a value");
            } else {
                rep.count("programs that failed (both)");
            }
        }
    }
    if ref_steps >= 3 {
        rep.nontrivial(fnv(format!("{:?}|{:?}", ops, heap).as_bytes()));
    }
    if !lockstep {
        return;
    }
    // lockstep
    let iops: Vec<OpCode> = ops.iter().map(op_to_impl).collect();
    let hv: HashMap<u16, Value> = heap.iter().enumerate().map(|(i, v)| (i as u16, value_from_rv(v))).collect();
    let mut ex = VerifExecutor::new(iops, hv);
    let mut vm = RefVm::new(ops, ref_heap_of(heap));
    let mut n = 0u64;
    while vm.pc < ops.len() && n < 200_000 {
        let at = vm.pc;
        let r = vm.step();
        let i = guarded(|| ex.step());
        n += 1;
        let i = match i {
            Ok(x) => x,
            Err(p) => {
                rep.violate(&format!("C10|step-panics|Executor::step|{}|op={}", class, op_class(ops, at)), p.message.clone(), wit(json!({"at": at})));
                return;
            }
        };
        match (r, i) {
            (Err(StepErr::Ood(_)), _) => return,
            (Err(StepErr::Fail), None) => return,
            (Err(StepErr::Fail), Some(())) => {
                rep.violate(&format!("C10|step-succeeds-where-spec-fails|Executor::step|{}|op={}", class, op_class(ops, at)), format!("step {} at pc {}", n, at), wit(json!({"at": at})));
                return;
            }
            (Ok(()), None) => {
                rep.violate(&format!("C10|step-fails-where-spec-succeeds|Executor::step|{}|op={}", class, op_class(ops, at)), format!("step {} at pc {}", n, at), wit(json!({"at": at})));
                return;
            }
            (Ok(()), Some(())) => {
                rep.count("lockstep states compared");
                let istack: Vec<RV> = ex.stack.iter().map(rv_from_value).collect();
                if ex.pc() != vm.pc || istack != vm.stack {
                    rep.violate(
                        &format!("C10|state-differs|Executor::step|{}|op={}", class, op_class(ops, at)),
                        format!("after step {} (pc {}): impl pc {} stack {:?} vs reference pc {} stack {:?}", n, at, ex.pc(), istack.iter().map(rv_brief).collect::<Vec<_>>(), vm.pc, vm.stack.iter().map(rv_brief).collect::<Vec<_>>()),
                        wit(json!({"at": at})),
                    );
                    return;
                }
                if matches!(ops[at], Op::Store | Op::StoreImm(_)) {
                    let iheap: HashMap<u16, RV> = ex.heap.iter().map(|(k, v)| (*k, rv_from_value(v))).collect();
                    if iheap != vm.heap {
                        rep.violate(&format!("C10|heap-differs|Executor::step|{}|op={}", class, op_class(ops, at)), format!("after step {}", n), wit(json!({"at": at})));
                        return;
                    }
                }
            }
        }
    }
}

// ---------------------------------------------------------------------------------------------
// type-aware random programs

#[derive(Clone, Copy, PartialEq, Debug)]
enum T {
    I,
    B,
    V,
}

struct PGen<'a> {
    r: &'a mut Rng,
    ops: Vec<Op>,
    st: Vec<T>,
}

impl<'a> PGen<'a> {
    fn small(&mut self) -> u128 {
        match self.r.below(8) {
            0 => 0,
            1 => 1,
            2 => 2,
            3 => 31,
            4 => 32,
            5 => 33,
            6 => 255,
            _ => self.r.below(70000) as u128,
        }
    }
    fn push_int(&mut self) {
        let op = match self.r.below(6) {
            0 => Op::PushI(self.r.arr32()),
            1 => {
                let mut a = [0xffu8; 32];
                a[31] = self.r.next() as u8;
                Op::PushI(a)
            }
            2 => {
                let mut a = [0u8; 32];
                let n = self.r.usize(33);
                let b = self.r.bytes(n);
                a[32 - n..].copy_from_slice(&b);
                Op::PushIC(a)
            }
            _ => pushi(self.small()),
        };
        self.ops.push(op);
        self.st.push(T::I);
    }
    fn push_bytes(&mut self) {
        let n = *self.r.pick(&[0usize, 1, 2, 31, 32, 33, 64, 65, 100]);
        if n == 0 && self.r.chance(1, 2) {
            self.ops.push(Op::BEmpty);
        } else {
            self.ops.push(Op::PushB(self.r.bytes(n)));
        }
        self.st.push(T::B);
    }
    fn push_vec(&mut self) {
        self.ops.push(Op::VEmpty);
        self.st.push(T::V);
        let n = self.r.usize(4);
        for _ in 0..n {
            // item then vector on top: VPush pops vec (top) then item
            match self.r.below(3) {
                0 => self.push_int(),
                1 => self.push_bytes(),
                _ => {
                    self.ops.push(Op::VEmpty);
                    self.st.push(T::V);
                }
            }
            // swap order via heap: store item, keep simple: use VCons (item on top, vector below)
            self.ops.push(Op::VCons);
            self.st.pop();
        }
    }
    fn need(&mut self, t: T) {
        // ensure top of stack has type t (push one if not)
        if self.st.last() != Some(&t) || self.r.chance(1, 6) {
            match t {
                T::I => self.push_int(),
                T::B => self.push_bytes(),
                T::V => self.push_vec(),
            }
        }
    }
    fn top(&self) -> Option<T> {
        self.st.last().copied()
    }
    /// emits one typed operation (operands arranged so that it usually succeeds)
    fn typed_op(&mut self) {
        match self.r.below(34) {
            0..=5 => {
                self.need(T::I);
                self.push_int();
                let op = self.r.pick(&[Op::Add, Op::Sub, Op::Mul, Op::Div, Op::Rem, Op::And, Op::Or, Op::Xor, Op::Lt, Op::Gt, Op::Eql]).clone();
                self.ops.push(op);
                self.st.pop();
            }
            6 => {
                // shifts: x on top, count below
                // counts inside the word width, and beyond it (256, 257, around 2^32, with the top bit set)
                let c = if self.r.chance(1, 5) {
                    match self.r.below(7) {
                        0 => 256,
                        1 => 257 + self.r.below(255) as u128,
                        2 => 512 + self.r.below(1000) as u128,
                        3 => 1u128 << 32,
                        4 => (1u128 << 32) + self.r.below(300) as u128,
                        5 => (1u128 << 127) | self.r.below(300) as u128,
                        _ => self.r.u128(),
                    }
                } else {
                    self.r.below(256) as u128
                };
                let count_op = if self.r.chance(1, 30) { Op::PushI(self.r.arr32()) } else { pushi(c) };
                self.ops.push(count_op);
                self.st.push(T::I);
                self.push_int();
                self.ops.push(if self.r.chance(1, 2) { Op::Shl } else { Op::Shr });
                self.st.pop();
            }
            7 => {
                // Exp(k): base on top, exponent below, around the bit bound
                let k = *self.r.pick(&[0u8, 1, 7, 8, 63, 255]);
                let bits = *self.r.pick(&[k as u32, k as u32 + 1, k as u32 + 2, 1, 0]);
                let e = if bits == 0 { BigUint::from(0u32) } else { (BigUint::from(1u32) << (bits.min(256) - 1)) + BigUint::from(self.r.below(2)) };
                let e = e % refvm::two256();
                self.ops.push(Op::PushI(refvm::int_to_be(&e)));
                self.st.push(T::I);
                self.push_int();
                self.ops.push(Op::Exp(k));
                self.st.pop();
            }
            8 => {
                self.need(T::I);
                self.ops.push(self.r.pick(&[Op::Not, Op::ItoB, Op::TypeQ]).clone());
                let t = match self.ops.last().unwrap() {
                    Op::ItoB => T::B,
                    _ => T::I,
                };
                self.st.pop();
                self.st.push(t);
            }
            9 => {
                if self.top().is_some() {
                    let t = self.top().unwrap();
                    self.ops.push(Op::Dup);
                    self.st.push(t);
                }
            }
            10 => {
                self.need(T::B);
                let n = *self.r.pick(&[0u16, 31, 32, 33, 64, 100, 65535]);
                self.ops.push(Op::Hash(n));
            }
            11 => {
                // BtoI on 31/32/33 bytes
                let n = *self.r.pick(&[31usize, 32, 32, 33, 0]);
                self.ops.push(Op::PushB(self.r.bytes(n)));
                self.ops.push(Op::BtoI);
                self.st.push(T::I);
            }
            12 => {
                // BPush: vec on top, value below ; BCons: item on top, vec below
                if self.r.chance(1, 2) {
                    self.push_int();
                    self.need(T::B);
                    self.ops.push(Op::BPush);
                    self.st.pop();
                    self.st.pop();
                    self.st.push(T::B);
                } else {
                    self.need(T::B);
                    self.push_int();
                    self.ops.push(Op::BCons);
                    self.st.pop();
                }
            }
            13 => {
                self.need(T::B);
                self.push_bytes();
                self.ops.push(Op::BAppend);
                self.st.pop();
            }
            14 => {
                // BSlice: vec top, begin, end
                let len = 8u128;
                let (b, e) = *self.r.pick(&[(0u128, 0u128), (0, len), (0, len + 1), (3, 2), (2, 6), (len, len), (1, 70000)]);
                self.ops.push(pushi(e));
                self.ops.push(pushi(b));
                self.ops.push(Op::PushB(self.r.bytes(len as usize)));
                self.ops.push(Op::BSlice);
                self.st.push(T::B);
            }
            15 => {
                // BRef / BSet with index around the length
                let len = 4u128;
                let idx = *self.r.pick(&[0u128, 3, 4, 5, 65535, 65536]);
                if self.r.chance(1, 2) {
                    self.ops.push(pushi(idx));
                    self.ops.push(Op::PushB(self.r.bytes(len as usize)));
                    self.ops.push(Op::BRef);
                    self.st.push(T::I);
                } else {
                    self.push_int();
                    self.ops.push(pushi(idx));
                    self.ops.push(Op::PushB(self.r.bytes(len as usize)));
                    self.ops.push(Op::BSet);
                    self.st.pop();
                    self.st.push(T::B);
                }
            }
            16 => {
                self.need(T::B);
                self.ops.push(Op::BLength);
                self.st.pop();
                self.st.push(T::I);
            }
            17 => {
                self.push_vec();
            }
            18 => {
                // VPush: vec top, item below
                match self.r.below(3) {
                    0 => self.push_int(),
                    1 => self.push_bytes(),
                    _ => self.push_vec(),
                }
                self.push_vec();
                self.ops.push(Op::VPush);
                self.st.pop();
                self.st.pop();
                self.st.push(T::V);
            }
            19 => {
                self.need(T::V);
                self.push_vec();
                self.ops.push(Op::VAppend);
                self.st.pop();
            }
            20 => {
                let (b, e) = *self.r.pick(&[(0u128, 0u128), (0, 3), (0, 4), (2, 1), (1, 3), (3, 3), (0, 65536)]);
                self.ops.push(pushi(e));
                self.ops.push(pushi(b));
                // a 3-element vector
                self.ops.extend([Op::VEmpty, pushi(1), Op::VCons, pushi(2), Op::VCons, Op::BEmpty, Op::VCons]);
                self.ops.push(Op::VSlice);
                self.st.push(T::V);
            }
            21 => {
                let idx = *self.r.pick(&[0u128, 1, 2, 3, 65535, 65536]);
                if self.r.chance(1, 2) {
                    self.ops.push(pushi(idx));
                    self.ops.extend([Op::VEmpty, pushi(1), Op::VCons, pushi(2), Op::VCons]);
                    self.ops.push(Op::VRef);
                    self.st.push(T::I);
                } else {
                    self.push_bytes();
                    self.ops.push(pushi(idx));
                    self.ops.extend([Op::VEmpty, pushi(1), Op::VCons, pushi(2), Op::VCons]);
                    self.ops.push(Op::VSet);
                    self.st.pop();
                    self.st.push(T::V);
                }
            }
            22 => {
                self.need(T::V);
                self.ops.push(Op::VLength);
                self.st.pop();
                self.st.push(T::I);
            }
            23 | 24 => {
                // heap store / load with small addresses
                let a = self.r.below(4) as u16 + 20;
                if self.top().is_some() && self.r.chance(1, 2) {
                    self.ops.push(Op::StoreImm(a));
                    self.st.pop();
                } else {
                    // guarantee it is set first
                    self.push_int();
                    self.ops.push(Op::StoreImm(a));
                    self.st.pop();
                    self.ops.push(Op::LoadImm(a));
                    self.st.push(T::I);
                }
            }
            25 => {
                // dynamic Store/Load: address on top
                let a = *self.r.pick(&[0u128, 21, 65535, 65536]);
                self.push_int();
                self.ops.push(pushi(a));
                self.ops.push(Op::Store);
                self.st.pop();
                self.ops.push(pushi(a));
                self.ops.push(Op::Load);
                self.st.push(T::I);
            }
            26 => {
                // mixed-type operand in either order
                self.push_bytes();
                self.push_int();
                self.ops.push(self.r.pick(&[Op::Add, Op::Eql, Op::BAppend, Op::VPush, Op::Lt]).clone());
                self.st.pop();
            }
            27 => {
                // SigEOk with short/long/exact operands: message top, key, signature
                let sig = *self.r.pick(&[0usize, 63, 64, 65]);
                let key = *self.r.pick(&[31usize, 32, 32, 33]);
                let msg = *self.r.pick(&[0usize, 32, 33]);
                self.ops.push(Op::PushB(self.r.bytes(sig)));
                self.ops.push(Op::PushB(self.r.bytes(key)));
                self.ops.push(Op::PushB(self.r.bytes(msg)));
                self.ops.push(Op::SigEOk(32));
                self.st.push(T::I);
            }
            28 => {
                self.ops.push(Op::Noop);
            }
            _ => {
                // a random opcode, untyped
                let o = crate::mon::c12::random_op(self.r, false);
                if !matches!(o, Op::Loop(_, _) | Op::Jmp(_) | Op::Bez(_) | Op::Bnz(_)) {
                    self.ops.push(o);
                    self.st.clear();
                }
            }
        }
    }
    /// a counter increment in the heap: proves how many times a body ran
    fn counter_bump(&mut self, addr: u16) {
        self.ops.extend([Op::LoadImm(addr), pushi(1), Op::Add, Op::StoreImm(addr)]);
    }
}

fn gen_program(r: &mut Rng) -> Vec<Op> {
    let mut g = PGen { r, ops: vec![], st: vec![] };
    // counters 10..13 start at 0
    for a in 10..14u16 {
        g.ops.push(pushi(0));
        g.ops.push(Op::StoreImm(a));
    }
    let n = 2 + g.r.usize(10);
    for _ in 0..n {
        match g.r.below(10) {
            0 | 1 => {
                // loop around a body made of counter bumps and typed ops that leave the stack as they found it
                let iters = *g.r.pick(&[0u16, 1, 2, 3, 5, 17]);
                let start = g.ops.len();
                g.ops.push(Op::Loop(iters, 0));
                let mut body = PGen { r: g.r, ops: vec![], st: vec![] };
                body.counter_bump(10);
                if body.r.chance(1, 2) {
                    // nested loop
                    let it2 = *body.r.pick(&[0u16, 1, 2, 4]);
                    let mut inner = vec![];
                    {
                        let mut b2 = PGen { r: body.r, ops: vec![], st: vec![] };
                        b2.counter_bump(11);
                        if b2.r.chance(1, 3) {
                            // a forward jump inside / out of the inner loop
                            let gap = b2.r.below(4) as u16;
                            b2.ops.push(Op::Jmp(gap));
                        }
                        b2.counter_bump(12);
                        inner = std::mem::take(&mut b2.ops);
                    }
                    let claimed = match body.r.below(6) {
                        0 => inner.len() as u16 + 1, // body overruns the enclosing loop => nesting failure or overrun
                        _ => inner.len() as u16,
                    };
                    body.ops.push(Op::Loop(it2, claimed));
                    body.ops.extend(inner);
                }
                if body.r.chance(1, 3) {
                    // conditional skip inside the body
                    body.ops.extend([Op::LoadImm(10), pushi(2), Op::Rem, Op::Bez(4)]);
                    body.counter_bump(13);
                }
                let body_ops = body.ops;
                let len = body_ops.len() as u16;
                g.ops[start] = Op::Loop(iters, len);
                g.ops.extend(body_ops);
            }
            2 => {
                // jump over a few typed ops (types may diverge: both sides must agree anyway)
                let gap = g.r.below(5) as u16;
                let kind = g.r.below(3);
                match kind {
                    0 => g.ops.push(Op::Jmp(gap)),
                    1 => {
                        g.push_int();
                        g.ops.push(Op::Bez(gap));
                        g.st.pop();
                    }
                    _ => {
                        match g.r.below(3) {
                            0 => g.push_int(),
                            1 => g.push_bytes(),
                            _ => g.push_vec(),
                        }
                        g.ops.push(Op::Bnz(gap));
                        g.st.pop();
                    }
                }
            }
            _ => g.typed_op(),
        }
    }
    // leave something observable on top: the counters as a vector
    g.ops.extend([Op::VEmpty, Op::LoadImm(13), Op::VCons, Op::LoadImm(12), Op::VCons, Op::LoadImm(11), Op::VCons, Op::LoadImm(10), Op::VCons]);
    if g.r.chance(1, 2) {
        // ... or whatever was on the stack below it
        g.ops.push(Op::StoreImm(30));
    }
    g.ops
}

/// Nested loops with a jump (unconditional, conditional on the parity of a counter, or the skip of a zero-iteration
/// loop) inside the INNER body whose landing point is chosen around the ends of both bodies: just outside the inner
/// loop, in the rest of the outer body, exactly one past the outer body (with outer repetitions left), two past it,
/// on a further Loop instruction that follows, or beyond the program. Four counters record how often each part ran.
fn loop_escape_program(r: &mut Rng) -> Vec<Op> {
    let bump = |a: u16| vec![Op::LoadImm(a), pushi(1), Op::Add, Op::StoreImm(a)];
    let mut ops = vec![];
    for a in 10..14u16 {
        ops.push(pushi(0));
        ops.push(Op::StoreImm(a));
    }
    let n1 = *r.pick(&[1u16, 2, 3, 4]);
    let n2 = *r.pick(&[1u16, 2, 3]);
    let tail_outer: Vec<Op> = if r.chance(1, 2) { bump(13) } else { vec![] };
    let after: Vec<Op> = match r.below(4) {
        0 => bump(13),
        1 | 2 => {
            let mut v = vec![Op::Loop(*r.pick(&[1u16, 2, 3]), 4)];
            v.extend(bump(13));
            v
        }
        _ => vec![],
    };
    let gap = match r.below(7) {
        0 => 4,
        1 | 2 | 3 => 4 + tail_outer.len(),
        4 => 4 + tail_outer.len() + 1,
        5 => 4 + tail_outer.len() / 2,
        _ => 4 + tail_outer.len() + after.len() + r.usize(3),
    } as u16;
    let jump: Vec<Op> = match r.below(5) {
        0 | 1 => vec![Op::Jmp(gap)],
        2 | 3 => vec![Op::LoadImm(11), pushi(2), Op::Rem, Op::Bnz(gap)],
        _ => vec![Op::Loop(0, gap)],
    };
    let mut inner = bump(11);
    inner.extend(jump);
    inner.extend(bump(12));
    let mut outer = bump(10);
    outer.push(Op::Loop(n2, inner.len() as u16));
    outer.extend(inner);
    outer.extend(tail_outer);
    ops.push(Op::Loop(n1, outer.len() as u16));
    ops.extend(outer);
    ops.extend(after);
    ops.extend([Op::VEmpty, Op::LoadImm(13), Op::VCons, Op::LoadImm(12), Op::VCons, Op::LoadImm(11), Op::VCons, Op::LoadImm(10), Op::VCons]);
    ops
}

// ---------------------------------------------------------------------------------------------
// environment access

fn rand_tx(r: &mut Rng) -> Transaction {
    let kinds = [TxKind::Normal, TxKind::Stake, TxKind::DoscMint, TxKind::Swap, TxKind::LiqDeposit, TxKind::LiqWithdraw, TxKind::Faucet];
    let denoms = |r: &mut Rng| match r.below(5) {
        0 => Denom::Mel,
        1 => Denom::Sym,
        2 => Denom::Erg,
        3 => Denom::NewCustom,
        _ => Denom::Custom(TxHash(HashVal(r.arr32()))),
    };
    Transaction {
        kind: *r.pick(&kinds),
        inputs: (0..r.usize(4)).map(|_| CoinID { txhash: TxHash(HashVal(r.arr32())), index: r.next() as u8 }).collect(),
        outputs: (0..r.usize(4))
            .map(|_| CoinData { covhash: Address(HashVal(r.arr32())), value: CoinValue(r.loguniform(128)), denom: denoms(r), additional_data: Bytes::from(r.bytes(r.clone().usize(40))) })
            .collect(),
        fee: CoinValue(r.loguniform(121)),
        covenants: (0..r.usize(3)).map(|_| Bytes::from(r.bytes(r.clone().usize(50)))).collect(),
        data: Bytes::from(r.bytes(r.clone().usize(80))),
        sigs: (0..r.usize(3)).map(|_| Bytes::from(r.bytes(64))).collect(),
    }
}

fn rand_header(r: &mut Rng) -> Header {
    Header {
        network: *r.pick(&ALL_NETS),
        previous: HashVal(r.arr32()),
        height: BlockHeight(r.next() >> r.below(60)),
        history_hash: HashVal(r.arr32()),
        coins_hash: HashVal(r.arr32()),
        transactions_hash: HashVal(r.arr32()),
        fee_pool: CoinValue(r.u128()),
        fee_multiplier: r.u128(),
        dosc_speed: r.u128(),
        pools_hash: HashVal(r.arr32()),
        stakes_hash: HashVal(r.arr32()),
    }
}

fn env_programs(r: &mut Rng) -> Vec<Op> {
    let mut ops = vec![Op::VEmpty];
    // collect several environment reads into one vector so one run checks many slots
    let n = 1 + r.usize(5);
    for _ in 0..n {
        match r.below(6) {
            0 => {
                let a = r.below(12) as u16;
                ops.extend([Op::LoadImm(a), Op::VCons]);
            }
            1 => {
                // tx field i
                let i = r.below(8) as u128;
                ops.extend([pushi(i), Op::LoadImm(0), Op::VRef, Op::VCons]);
            }
            2 => {
                // tx.outputs[j][k]
                let j = r.below(4) as u128;
                let k = r.below(5) as u128;
                ops.extend([pushi(k), pushi(j), pushi(2), Op::LoadImm(0), Op::VRef, Op::VRef, Op::VRef, Op::VCons]);
            }
            3 => {
                // tx.inputs[j][k]
                let j = r.below(4) as u128;
                let k = r.below(3) as u128;
                ops.extend([pushi(k), pushi(j), pushi(1), Op::LoadImm(0), Op::VRef, Op::VRef, Op::VRef, Op::VCons]);
            }
            4 => {
                // header field
                let k = r.below(12) as u128;
                ops.extend([pushi(k), Op::LoadImm(10), Op::VRef, Op::VCons]);
            }
            _ => {
                // lengths of the list-valued fields
                let i = *r.pick(&[1u128, 2, 4, 6]);
                ops.extend([pushi(i), Op::LoadImm(0), Op::VRef, Op::VLength, Op::VCons]);
            }
        }
    }
    ops
}

pub fn run(p: &Params) -> Report {
    let mut rep = Report::new("C10");
    rep.rule = "cases = (program, initial heap/transaction/environment): (i) every program of length <= 4 over a 16-instruction alphabet x 3 heaps, enumerated; (ii) type-aware random programs with counted and nested loops (iteration counters kept in the heap), forward jumps in/out of loops, boundary slices/indices/exponents/truncation, mixed-type operands; (ii-a) nested loops with an unconditional / conditional jump or a zero-iteration loop skip inside the inner body landing just outside it, in the rest of the outer body, one or two past the outer body, on a following Loop, or beyond the program; (ii-b) byte strings of 2^16 / 2^17 (+ a few) bytes built by self-appending and handed to Hash / SigEOk / BtoI / BLength with bounds around the length modulo 2^16; (iii) random decodable instruction lists; (iv) environment-reading programs over random transactions, coins and headers run through Covenant::execute. Oracle: independent reference interpreter; final result compared through the public API and, through the hooked executor, pc/stack/heap after every instruction; repeated and cross-thread runs must agree. Non-trivial = reference executed >= 3 instructions; distinct by (program, heap). Shift amounts are taken modulo 256 (DESIGN 5.6). Excluded and counted: loop bodies running past the end, empty loop bodies, lengths above 2^22".into();
    let mut r = Rng::new(p.shard_seed() ^ 0xC10);
    let hs = heaps(&mut Rng::new(p.seed));
    // (i) exhaustive
    let alphabet: Vec<Op> = vec![
        pushi(0), pushi(3), Op::Add, Op::Sub, Op::Dup, Op::Bez(1), Op::Bnz(1), Op::Jmp(1), Op::Loop(2, 1), Op::Loop(3, 2),
        Op::LoadImm(0), Op::StoreImm(0), Op::VEmpty, Op::VPush, Op::BEmpty, Op::Eql,
    ];
    let a = alphabet.len();
    // under Miri (thorough tier's interpreter stage, ~10^4 x slower) the enumeration stops at length 2
    let maxlen = if cfg!(miri) { 1 } else { 4 };
    let mut count = 0u64;
    for len in 1..=maxlen {
        let total = (a as u64).pow(len as u32);
        for code in 0..total {
            count += 1;
            if count % p.nshards != p.shard {
                continue;
            }
            let mut c = code;
            let mut ops = Vec::with_capacity(len);
            for _ in 0..len {
                ops.push(alphabet[(c % a as u64) as usize].clone());
                c /= a as u64;
            }
            for h in &hs {
                compare(&mut rep, &ops, h, "short-exhaustive", len >= 3 && code % 5 == 0);
            }
        }
    }
    rep.count("exhaustive: all programs of length <= 4 over the 16-instruction alphabet (this shard's share)");
    // (ii)
    let n2 = if cfg!(miri) { 16 } else { p.share(p.n(400_000, 10_000_000)) };
    for k in 0..n2 {
        let ops = gen_program(&mut r);
        let h = &hs[r.usize(hs.len())];
        compare(&mut rep, &ops, h, "typed-random", true);
        if k < 2 && p.shard == 0 {
            let (o, steps) = refvm::run(&ops, ref_heap_of(h));
            rep.sample(json!({"program": ops_brief(&ops), "reference_result": format!("{:?}", refvm::outcome_truthy(&o)), "steps": steps, "final": match o { Outcome::Value(v) => rv_brief(&v), other => format!("{:?}", other) }}));
        }
    }
    // (ii-a) jumps out of an inner loop, landing around the end of the enclosing one
    let n_esc = if cfg!(miri) { 8 } else { p.share(p.n(60_000, 1_500_000)) };
    for _ in 0..n_esc {
        let ops = loop_escape_program(&mut r);
        let h = &hs[r.usize(hs.len())];
        compare(&mut rep, &ops, h, "loop-escape", true);
        rep.count("programs jumping out of an inner loop around the end of the enclosing loop");
    }
    // (ii-b) long byte strings (2^16 and 2^17 bytes and a little more, built by self-appending) handed to the
    // length-bounded instructions: a bound compared in a narrower integer type shows here and nowhere below 65536
    if !cfg!(miri) {
        let n_long = p.share(p.n(160, 3200));
        for k in 0..n_long {
            let rounds = *r.pick(&[16u16, 16, 17]);
            let extra = *r.pick(&[0usize, 0, 1, 5, 32, 33, 64, 200]);
            let mut ops = vec![Op::PushB(vec![r.next() as u8]), Op::Loop(rounds, 2), Op::Dup, Op::BAppend];
            if extra > 0 {
                // x = the short string on top, y = the long one below: BAppend gives x ++ y
                ops.push(Op::PushB(r.bytes(extra)));
                ops.push(Op::BAppend);
            }
            let len = (1usize << rounds) + extra;
            let low = (len % 65536) as u16;
            let bound = *r.pick(&[0u16, low, low.wrapping_add(1), low.wrapping_sub(1), 32, 64, 65535]);
            match r.below(6) {
                0 | 1 | 2 => ops.push(Op::Hash(bound)),
                3 => {
                    // the long string as the message of a signature check (key and signature below it)
                    let mut pre = vec![Op::PushB(r.bytes(64)), Op::PushB(r.bytes(32))];
                    pre.extend(ops);
                    ops = pre;
                    ops.push(Op::SigEOk(bound));
                }
                4 => ops.push(Op::BtoI),
                _ => {
                    ops.push(Op::BLength);
                }
            }
            let h = &hs[r.usize(hs.len())];
            compare(&mut rep, &ops, h, "long-string-consumer", k % 4 == 0);
            rep.count("programs handing a byte string of 2^16 bytes or more to a length-bounded instruction");
        }
    }
    // (iii)
    let n3 = if cfg!(miri) { 16 } else { p.share(p.n(300_000, 8_000_000)) };
    for _ in 0..n3 {
        let n_ops = 1 + r.usize(12);
        let ops: Vec<Op> = (0..n_ops).map(|_| crate::mon::c12::random_op(&mut r, false)).collect();
        let h = &hs[r.usize(hs.len())];
        compare(&mut rep, &ops, h, "random-decodable", true);
    }
    // (iv) environment
    let n4 = if cfg!(miri) { 4 } else { p.share(p.n(40_000, 1_000_000)) };
    for k in 0..n4 {
        rep.eval();
        let tx = rand_tx(&mut r);
        let hdr = rand_header(&mut r);
        let coin_id = CoinID { txhash: TxHash(HashVal(r.arr32())), index: r.next() as u8 };
        let cdh = CoinDataHeight {
            coin_data: CoinData { covhash: Address(HashVal(r.arr32())), value: CoinValue(r.loguniform(128)), denom: if r.chance(1, 2) { Denom::Mel } else { Denom::Custom(TxHash(HashVal(r.arr32()))) }, additional_data: Bytes::from(r.bytes(r.clone().usize(30))) },
            height: BlockHeight(r.next() >> r.below(60)),
        };
        let sidx = r.next() as u8;
        let with_env = r.chance(4, 5);
        let ops = env_programs(&mut r);
        let iops: Vec<OpCode> = ops.iter().map(op_to_impl).collect();
        let cov = Covenant::from_ops(&iops);
        let env = if with_env { Some(CovenantEnv { parent_coinid: coin_id, parent_cdh: cdh.clone(), spender_index: sidx, last_header: hdr }) } else { None };
        let tx2 = tx.clone();
        let env2 = env.clone();
        let cov2 = cov.clone();
        let got = guarded(move || cov2.execute(&tx2, env2).map(|v| rv_from_value(&v)));
        let renv = model::RefEnv { coin_id: &coin_id, cdh: &cdh, spender_index: sidx, last_header: &hdr };
        let heap = model::ref_heap(&tx, if with_env { Some(&renv) } else { None });
        let (want, _) = refvm::run(&ops, heap);
        let want = match want {
            Outcome::Value(v) => Some(v),
            Outcome::Fail => None,
            Outcome::OutOfDomain(_) => continue,
        };
        rep.nontrivial(fnv(format!("{:?}{:?}", ops, tx.hash_nosigs()).as_bytes()));
        rep.count("environment programs");
        match got {
            Err(pn) => rep.violate(&format!("C10|execute-panics|Covenant::execute|environment|{}", msg_class(&pn.message)), pn.message.clone(), json!({"program": ops_brief(&ops), "tx": tx_hex(&tx)})),
            Ok(g) => {
                if g != want {
                    rep.violate(
                        "C10|result-differs|Covenant::execute|environment-heap",
                        format!("implementation {:?} vs reference {:?}", g.as_ref().map(rv_brief), want.as_ref().map(rv_brief)),
                        json!({"program": ops_brief(&ops), "tx": tx_hex(&tx), "with_env": with_env, "header": header_json(&hdr), "spender_index": sidx}),
                    );
                }
                // determinism: again on this thread and on another thread
                if k % 16 == 0 {
                    let c3 = cov.clone();
                    let t3 = tx.clone();
                    let e3 = env.clone();
                    let again = c3.execute(&t3, e3.clone()).map(|v| rv_from_value(&v));
                    let other = std::thread::spawn(move || c3.execute(&t3, e3).map(|v| rv_from_value(&v))).join().ok().flatten();
                    rep.count("determinism re-runs");
                    if again != g || (other != g) {
                        rep.violate("C10|nondeterministic|Covenant::execute|rerun", "two runs of the same covenant on the same inputs differ".into(), json!({"program": ops_brief(&ops), "tx": tx_hex(&tx)}));
                    }
                }
            }
        }
        if k == 0 && p.shard == 0 {
            rep.sample(json!({"environment_program": ops_brief(&ops), "with_env": with_env}));
        }
    }
    rep.require("programs that ran to a value", 10_000);
    rep.require("lockstep states compared", 100_000);
    rep.require("environment programs", 1_000);
    if !cfg!(miri) {
        rep.require("programs handing a byte string of 2^16 bytes or more to a length-bounded instruction", 100);
    }
    rep
}
