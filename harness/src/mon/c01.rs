//! C01 - conservation of every denomination.
use std::collections::BTreeMap;

use melstructs::{Denom, NetID, PoolKey, PoolState, Transaction, TxKind};
use num::bigint::{BigInt, BigUint};
use num::{Signed, Zero};
use serde_json::json;

use crate::gen::*;
use crate::mon::c02::batch_witness;
use crate::refmath::*;
use crate::report::Report;
use crate::rng::{fnv, Rng};
use crate::world::*;
use crate::Params;

pub struct C01 {
    pub rep: Report,
    pub case_seed: u64,
    last_supply: Option<Supply>,
    /// transactions that have issued their own new token in this lineage (a token is "newly created" once)
    issued: std::collections::HashSet<melstructs::TxHash>,
}

fn dn(d: &Denom) -> String {
    denom_name(d)
}

fn dclass(w: &World, d: &Denom) -> &'static str {
    match d {
        Denom::Mel => "MEL",
        Denom::Sym => "SYM",
        Denom::Erg => "ERG",
        Denom::NewCustom => "NEWCUSTOM",
        Denom::Custom(_) => {
            if is_liq_denom(w, d) {
                "liquidity-token"
            } else {
                "custom-token"
            }
        }
    }
}

pub fn is_liq_denom(w: &World, d: &Denom) -> bool {
    w.pool_slots.values().any(|b| liq_denom_of_slot(b) == *d)
}

pub fn liq_denom_of_slot(slot_bytes: &[u8]) -> Denom {
    Denom::Custom(melstructs::TxHash(tmelcrypt::hash_keyed(b"liq", slot_bytes)))
}

fn supply_json(s: &Supply) -> serde_json::Value {
    json!(s.iter().map(|(k, v)| (dn(k), v.to_string())).collect::<BTreeMap<_, _>>())
}

/// issuance a batch is allowed to perform, from its transactions alone
fn batch_allowance(net: NetID, txs: &[Transaction], issued: &mut std::collections::HashSet<melstructs::TxHash>) -> Supply {
    let mut a: Supply = BTreeMap::new();
    for tx in txs {
        let h = tx.hash_nosigs();
        // a transaction's own new token is issued by that transaction once: a second acceptance of the same transaction
        // (which a transaction with inputs can never get, and a faucet must not get) creates nothing new
        let first_time = issued.insert(h);
        let grandfathered = hex::encode(h.0 .0) == GRANDFATHERED_FAUCET;
        if tx.kind == TxKind::Faucet && (net != NetID::Mainnet || grandfathered) {
            // off-mainnet faucet (and the grandfathered one on mainnet): its outputs and its fee
            for o in &tx.outputs {
                let d = if o.denom == Denom::NewCustom { Denom::Custom(h) } else { o.denom };
                if o.denom == Denom::NewCustom && !first_time {
                    continue;
                }
                *a.entry(d).or_default() += BigInt::from(o.value.0);
            }
            *a.entry(Denom::Mel).or_default() += BigInt::from(tx.fee.0);
        } else {
            for o in &tx.outputs {
                if o.denom == Denom::NewCustom && first_time {
                    *a.entry(Denom::Custom(h)).or_default() += BigInt::from(o.value.0);
                }
            }
        }
    }
    a
}

pub fn debug_diff(w: &World, a: &View, b: &View) {
    for (k, v) in b.coins.iter() {
        if a.coins.get(k) != Some(v) {
            eprintln!("   coin {:?} : {:?} -> {:?}", w.known_ids.get(k), a.coins.get(k).map(|x| classify_coin_entry(x)), classify_coin_entry(v));
        }
    }
    for (k, v) in a.coins.iter() {
        if !b.coins.contains_key(k) {
            eprintln!("   coin {:?} : {:?} -> gone", w.known_ids.get(k), classify_coin_entry(v));
        }
    }
    for (k, v) in b.pools.iter() {
        if a.pools.get(k) != Some(v) {
            eprintln!("   pool slot {:?} denoms {:?}: {:?} -> {:?}", w.pool_slots.get(k).map(hex::encode), w.pool_slots.get(k).and_then(|x| slot_denoms(x)), a.pools.get(k).and_then(|x| stdcode::deserialize::<PoolState>(x).ok()), stdcode::deserialize::<PoolState>(v).ok());
        }
    }
    eprintln!("   fee_pool {} -> {} tips {} -> {}", a.snap.fee_pool, b.snap.fee_pool, a.snap.tips, b.snap.tips);
}

impl C01 {
    fn check(&mut self, w: &World, phase: &str, before: &Supply, after: &Supply, allow: &Supply, input_class: &str, wit: serde_json::Value) {
        let d = delta(after, before);
        for (den, dv) in d.iter() {
            let al = allow.get(den).cloned().unwrap_or_default();
            if dv > &al {
                let sig = format!("C01|supply-increased|{}|{},{}", phase, dclass(w, den), input_class);
                let mut wj = wit.clone();
                wj["denomination"] = json!(dn(den));
                wj["increase"] = json!(dv.to_string());
                wj["allowed"] = json!(al.to_string());
                wj["supply_before"] = supply_json(before);
                wj["supply_after"] = supply_json(after);
                self.rep.violate(&sig, format!("{} supply rose by {} in {} (allowed {})", dn(den), dv, phase, al), wj);
            }
        }
    }
}

fn spelling_class(txs: &[Transaction]) -> String {
    let mut odd = false;
    let mut any = false;
    for t in txs {
        if let Some(k) = PoolKey::from_bytes(&t.data) {
            any = true;
            if k.to_bytes() != t.data {
                odd = true;
            }
        }
    }
    if odd {
        "pool-request-noncanonical-spelling".into()
    } else if any {
        "pool-request-canonical".into()
    } else {
        "no-pool-request".into()
    }
}

impl Monitor for C01 {
    fn on_batch(&mut self, w: &World, ev: &BatchEvent) {
        self.rep.eval();
        let (before, u1) = supply_of(w, &ev.pre);
        let (after, u2) = supply_of(w, &ev.post);
        if u1 + u2 > 0 {
            self.rep.count("views with pool slots the generator cannot name (not attributed)");
        }
        // carried state between the previous seal and this batch must not have grown
        if let Some(prev) = self.last_supply.take() {
            let empty = BTreeMap::new();
            self.check(w, "between-blocks", &prev, &before, &empty, "next_unsealed", json!({"case_seed": self.case_seed, "origin": w.origin, "height": ev.pre.snap.height.0}));
        }
        if !ev.accepted() {
            let empty = BTreeMap::new();
            self.check(w, "rejected-batch", &before, &after, &empty, "rejected", batch_witness(w, ev, self.case_seed));
            return;
        }
        self.rep.count("accepted batches");
        let mut allow = batch_allowance(w.net, &ev.txs, &mut self.issued);
        // proof-of-work-backed ERG: at most the reference reward of each mint
        for tx in ev.txs.iter().filter(|t| t.kind == TxKind::DoscMint) {
            self.rep.count("accepted DoscMint transactions");
            let erg_out: u128 = tx.outputs.iter().filter(|o| o.denom == Denom::Erg).map(|o| o.value.0).sum();
            let reward = tx.inputs.first().and_then(|id| {
                let cdh = ev.pre.coins.get(&coin_key(id)).and_then(|v| match classify_coin_entry(v) {
                    CoinEntry::Coin(c) => Some(c),
                    _ => None,
                })?;
                let tip = w.tip.as_ref()?;
                let hd = if tip.header().height == cdh.height { tip.header() } else { tip.history(cdh.height)? };
                crate::refpow::ref_mint(tx, &cdh, &hd, ev.last_header.dosc_speed, ev.pre.snap.height.0)
            });
            if let Some((_, r)) = reward {
                let allowed = BigInt::from(r).min(BigInt::from(erg_out));
                *allow.entry(Denom::Erg).or_default() += allowed;
            }
        }
        let cls = if crate::mon::c02::has_dependency(&ev.txs) { "dependent-batch" } else if ev.txs.len() > 1 { "independent-batch" } else { "single-tx" };
        let kinds: Vec<String> = {
            let mut k: Vec<String> = ev.txs.iter().map(|t| format!("{}", t.kind)).collect();
            k.sort();
            k.dedup();
            k
        };
        if ev.txs.iter().any(|t| t.kind != TxKind::Faucet) {
            let mut fp = vec![];
            for t in &ev.txs {
                fp.extend_from_slice(&t.hash_nosigs().0 .0);
            }
            self.rep.nontrivial(fnv(&fp));
        }
        for k in &kinds {
            self.rep.count(&format!("accepted batches containing kind {}", k));
        }
        self.check(w, "apply_tx_batch", &before, &after, &allow, cls, batch_witness(w, ev, self.case_seed));
    }

    fn on_seal(&mut self, w: &World, ev: &SealEvent) {
        if ev.panic.is_some() || ev.phases.len() < 8 {
            self.rep.count("seal did not complete (left to C09)");
            if let Some(p) = &ev.panic {
                self.rep.note(&format!("seal panicked (C09's business): {} @ {} [{}] case_seed={}", p.message, p.location, p.origin, self.case_seed));
            }
            self.last_supply = None;
            return;
        }
        self.rep.eval();
        self.rep.count("sealed blocks");
        let sup: Vec<Supply> = ev.phases.iter().map(|v| supply_of(w, v).0).collect();
        let coin: Vec<Supply> = ev.phases.iter().map(coin_sums).collect();
        let spell = spelling_class(&ev.block_txs);
        let wit = json!({
            "case_seed": self.case_seed, "origin": w.origin, "height": ev.height,
            "block_txs": ev.block_txs.iter().map(tx_brief).collect::<Vec<_>>(),
            "block_txs_hex": ev.block_txs.iter().map(tx_hex).collect::<Vec<_>>(),
            "action": format!("{:?}", ev.action),
        });
        let mut fp = vec![];
        for t in &ev.block_txs {
            fp.extend_from_slice(&t.hash_nosigs().0 .0);
        }
        fp.extend_from_slice(&ev.height.to_be_bytes());
        if ev.block_txs.iter().any(|t| PoolKey::from_bytes(&t.data).is_some()) || ev.action.is_some() {
            self.rep.nontrivial(fnv(&fp));
        }
        let pool_at = |v: &View, key: PoolKey| -> Option<PoolState> {
            let k = pool_slot_key(&key.to_bytes());
            v.pools.get(&k).and_then(|b| stdcode::deserialize::<PoolState>(b).ok())
        };
        // phase 0->1: built-ins. Bootstrap of absent built-in pools counts as genesis.
        let mut allow: Supply = BTreeMap::new();
        for key in [PoolKey::new(Denom::Mel, Denom::Sym), PoolKey::new(Denom::Mel, Denom::Erg), PoolKey::new(Denom::Erg, Denom::Sym)] {
            if pool_at(&ev.phases[0], key).is_none() {
                if let Some(p) = pool_at(&ev.phases[1], key) {
                    *allow.entry(key.left()).or_default() += BigInt::from(p.lefts);
                    *allow.entry(key.right()).or_default() += BigInt::from(p.rights);
                    self.rep.count("built-in pool bootstraps (counted as genesis)");
                }
            }
        }
        if std::env::var("MELVERIF_DEBUG").is_ok() {
            for i in 0..7 {
                let d = delta(&sup[i + 1], &sup[i]);
                if d.values().any(|x| x.is_positive()) {
                    eprintln!("DEBUG case {} height {} phase {} -> {} delta {:?}", self.case_seed, ev.height, ev.phases[i].snap.label, ev.phases[i + 1].snap.label, d.iter().filter(|(_, v)| !v.is_zero()).map(|(k, v)| (dn(k), v.to_string())).collect::<Vec<_>>());
                    debug_diff(w, &ev.phases[i], &ev.phases[i + 1]);
                }
            }
        }
        self.check(w, "phase:builtins", &sup[0], &sup[1], &allow, "bootstrap", wit.clone());
        // swaps: nothing may grow
        let empty: Supply = BTreeMap::new();
        self.check(w, "phase:swaps", &sup[1], &sup[2], &empty, &spell, wit.clone());
        // deposits: only liquidity tokens of pools named by a deposit in this block, by at most the pool's new liquidity
        let mut allow: Supply = BTreeMap::new();
        for (k, after) in ev.phases[3].pool_entries() {
            if let Some(bytes) = w.pool_slots.get(k) {
                let before = ev.phases[2].pools.get(k).and_then(|b| stdcode::deserialize::<PoolState>(b).ok()).map(|p| p.liqs).unwrap_or(0);
                if after.liqs > before {
                    let named = ev.block_txs.iter().any(|t| t.kind == TxKind::LiqDeposit && PoolKey::from_bytes(&t.data).map(|pk| pool_slot_key(&pk.to_bytes()) == *k).unwrap_or(false));
                    if named {
                        *allow.entry(liq_denom_of_slot(bytes)).or_default() += BigInt::from(after.liqs - before);
                    }
                }
            }
        }
        if legacy_net(ev.net) && ev.height < LEGACY_DEPOSIT_BELOW {
            // documented legacy rule window (deposits before height 978392 on mainnet/testnet keep the old, inflationary behaviour for replay compatibility)
            self.rep.count("excluded: deposit phase inside the legacy rule window (mainnet/testnet below 978392)");
        } else {
            self.check(w, "phase:deposits", &sup[2], &sup[3], &allow, &spell, wit.clone());
        }
        self.check(w, "phase:withdrawals", &sup[3], &sup[4], &empty, &spell, wit.clone());
        // pegging: bounded nudge
        let ms = pool_at(&ev.phases[4], PoolKey::new(Denom::Mel, Denom::Sym));
        let me = pool_at(&ev.phases[4], PoolKey::new(Denom::Mel, Denom::Erg));
        let es = pool_at(&ev.phases[4], PoolKey::new(Denom::Erg, Denom::Sym));
        let mut allow: Supply = BTreeMap::new();
        if let (Some(ms), Some(me)) = (ms, me) {
            if let Some(pr) = peg_reference(ev.net, ev.height, &ms, &me, es.as_ref()) {
                allow.insert(Denom::Mel, BigInt::from(pr.max_mel_issue.clone()));
                allow.insert(Denom::Sym, BigInt::from(pr.max_sym_issue.clone()));
                let d = delta(&sup[5], &sup[4]);
                if d.get(&Denom::Mel).map(|x| x.is_positive()).unwrap_or(false) {
                    self.rep.count("peg nudges that issued MEL");
                }
                if d.get(&Denom::Sym).map(|x| x.is_positive()).unwrap_or(false) {
                    self.rep.count("peg nudges that issued SYM");
                }
            }
        }
        self.check(w, "phase:pegging", &sup[4], &sup[5], &allow, "peg", wit.clone());
        // TIP-909 subsidy
        let mut allow: Supply = BTreeMap::new();
        if tip_active(ev.net, ev.height, TIP_909) {
            allow.insert(Denom::Sym, BigInt::from(tip909_reward(ev.height)));
            self.rep.count("blocks with TIP-909 subsidy");
        }
        self.check(w, "phase:tip909", &sup[5], &sup[6], &allow, "subsidy", wit.clone());
        // proposer action: moves, never creates
        self.check(w, "phase:proposer", &sup[6], &sup[7], &empty, if ev.action.is_some() { "with-action" } else { "no-action" }, wit.clone());
        let _ = coin;
        self.last_supply = Some(sup[7].clone());
        if self.rep.samples.len() < self.rep.max_samples && !ev.block_txs.is_empty() && ev.block_txs.iter().any(|t| PoolKey::from_bytes(&t.data).is_some()) {
            self.rep.sample(json!({"height": ev.height, "origin": w.origin, "kinds": ev.block_txs.iter().map(|t| format!("{}", t.kind)).collect::<Vec<_>>(),
                "supply_before_seal": supply_json(&sup[0]), "supply_after_seal": supply_json(&sup[7])}));
        }
    }
}

pub fn new_monitor() -> C01 {
    let mut m = C01 { rep: Report::new("C01"), case_seed: 0, last_supply: None, issued: Default::default() };
    m.rep.rule = "cases = every accepted batch and every sealed block of random histories (all transaction kinds, dependent/shuffled batches, every spelling of pool names, wrong-kind pool data, values 1..2^120 (one history in six with mostly huge amounts and many swaps per block), custom/test/main networks at fabricated heights); the supply vector (coins + pool reserves by the slot's canonical denominations + fee pool + tips) is recomputed from hooked snapshots before/after each batch and around each of the 7 sealing phases and its increase per denomination must not exceed the allowance computed from the inputs alone (faucet, a transaction's own new token - once per transaction -, liquidity minted for a named deposit, reference peg nudge, TIP-909 schedule; bootstrap of built-in pools counts as genesis). Non-trivial = batch with a non-faucet member, or block with a pool request or proposer action; distinct by member hashes".into();
    m
}

/// A transaction without inputs and without a fee (possible at multiplier 0) whose only output is its own new token: if it
/// is let in at all it can be let in again, because nothing it consumes is gone. Applied, its coin moved on, applied again.
fn issuer_replay(w: &mut World, mon: &mut C01) {
    use bytes::Bytes;
    use melstructs::{BlockHeight, CoinData, CoinDataHeight, CoinValue};
    let dest = w.owners[0].addr_new;
    let t = Transaction {
        kind: TxKind::Normal,
        inputs: vec![],
        outputs: vec![CoinData { covhash: dest, value: CoinValue(1000 + w.rng.below(1 << 40) as u128), denom: Denom::NewCustom, additional_data: Bytes::new() }],
        fee: CoinValue(0),
        covenants: vec![],
        data: Bytes::from(w.rng.bytes(6)),
        sigs: vec![],
    };
    mon.rep.count("input-less token issuers offered");
    let ev = w.apply_batch(vec![t.clone()], vec!["normal+hostile:no-inputs,new-token-only".into()]);
    mon.on_batch(w, &ev);
    if !ev.accepted() || w.dead {
        return;
    }
    mon.rep.count("input-less token issuers accepted");
    let sev = w.seal_next(None);
    mon.on_seal(w, &sev);
    if w.dead {
        return;
    }
    let coin = (t.output_coinid(0), CoinDataHeight { coin_data: CoinData { covhash: dest, value: t.outputs[0].value, denom: Denom::Custom(t.hash_nosigs()), additional_data: Bytes::new() }, height: BlockHeight(sev.height) });
    let mut ins = w.pick_inputs(&[Denom::Mel], 0);
    if ins.is_empty() {
        return;
    }
    ins.push(coin);
    w.learn_tx(&t);
    if let Some(mv) = w.complete(TxKind::Normal, ins, vec![], vec![], 0) {
        let ev = w.apply_batch(vec![mv], vec!["normal".into()]);
        mon.on_batch(w, &ev);
        if w.dead {
            return;
        }
        let sev = w.seal_next(None);
        mon.on_seal(w, &sev);
        if w.dead {
            return;
        }
        let ev = w.apply_batch(vec![t], vec!["normal+hostile:no-inputs,new-token-only,replayed".into()]);
        mon.on_batch(w, &ev);
        if ev.accepted() {
            mon.rep.count("input-less token issuers accepted a second time");
        }
    }
}

pub fn run(p: &Params) -> Report {
    let total = p.n(1600, 40000);
    let mine = p.share(total);
    let mut rng = Rng::new(p.shard_seed() ^ 0xC01);
    let mut mon = new_monitor();
    if p.only_case.is_none() {
        mon.rep.require("accepted batches", p.n(400, 8000));
        mon.rep.require("sealed blocks", p.n(1000, 20000));
    }
    for case in 0..mine {
        let case_seed = rng.next();
        if let Some(only) = p.only_case {
            if only != case_seed {
                continue;
            }
        }
        mon.case_seed = case_seed;
        mon.last_supply = None;
        mon.issued.clear();
        let mut w = World::random(case_seed);
        w.profile.swap = 22;
        w.profile.deposit = 12;
        w.profile.withdraw = 10;
        w.profile.odd_spelling_permille = 250;
        w.profile.hostile = 15;
        if case % 6 == 1 {
            // mint-heavy histories: mints that raise the recorded DOSC speed, followed by mints over older coins (some of
            // them claiming more than their reward)
            w.profile.doscmint = 22;
            w.profile.fast_mint_permille = 250;
        }
        if case % 6 == 4 {
            // whales: most amounts near their caps or log-uniform up to 2^120, many swaps per block, so that several
            // large, non-round requests against large reserves settle together (128-bit products overflow)
            w.profile.big_values_permille = 800;
            w.profile.swap = 50;
            w.profile.deposit = 16;
            w.profile.withdraw = 6;
            w.profile.hostile = 4;
            w.profile.max_batch = 10;
            mon.rep.count("whale histories");
        }
        if case % 6 == 2 && w.fee_multiplier() == 0 {
            issuer_replay(&mut w, &mut mon);
        }
        let blocks = 5 + (case % 12) as usize;
        run_history(&mut w, blocks, &mut [&mut mon]);
    }
    mon.rep
}
