//! C16 - built-in pools always exist with reserves; liquidity tokens stay fully backed.
use std::collections::BTreeMap;

use melstructs::{Denom, NetID, PoolKey, PoolState, TxKind};
use num::bigint::BigInt;
use serde_json::json;

use crate::gen::*;
use crate::mon::c01::liq_denom_of_slot;
use crate::refmath::coin_sums;
use crate::report::Report;
use crate::rng::{fnv, Rng};
use crate::world::*;
use crate::Params;

pub struct C16 {
    pub rep: Report,
    pub case_seed: u64,
}

impl Monitor for C16 {
    fn on_seal(&mut self, w: &World, ev: &SealEvent) {
        if ev.panic.is_some() || ev.phases.len() < 8 {
            self.rep.count("seal did not complete (left to C09)");
            if let Some(p) = &ev.panic {
                self.rep.note(&format!("seal panicked (C09's business): {} @ {} [{}] case_seed={}", p.message, p.location, p.origin, self.case_seed));
                // ... unless the state it died on already had a built-in pool without reserves: then the block could not be
                // sealed BECAUSE the invariant of this property was lost, and there is no sealed state to look at
                if let Some(last) = ev.phases.last() {
                    let pool_at = |key: PoolKey| -> Option<PoolState> { last.pools.get(&pool_slot_key(&key.to_bytes())).and_then(|b| stdcode::deserialize::<PoolState>(b).ok()) };
                    let mut builtins = vec![("MEL/SYM", PoolKey::new(Denom::Mel, Denom::Sym)), ("MEL/ERG", PoolKey::new(Denom::Mel, Denom::Erg))];
                    if tip_active(ev.net, ev.height, TIP_902) {
                        builtins.push(("ERG/SYM", PoolKey::new(Denom::Erg, Denom::Sym)));
                    }
                    if ev.phases.len() >= 2 {
                        for (name, key) in builtins {
                            let bad = match pool_at(key) {
                                None => true,
                                Some(ps) => ps.lefts == 0 || ps.rights == 0,
                            };
                            if bad {
                                self.rep.violate(
                                    &format!("C16|builtin-pool-without-reserves-stops-sealing|seal|{}", name),
                                    format!("sealing height {} panicked ({}) on a state in which the built-in pool {} is missing or has an empty side", ev.height, p.message, name),
                                    json!({"case_seed": self.case_seed, "origin": w.origin, "height": ev.height, "phases_completed": ev.phases.len(), "panic": p.message, "block_txs_hex": ev.block_txs.iter().map(tx_hex).collect::<Vec<_>>()}),
                                );
                            }
                        }
                    }
                }
            }
            return;
        }
        self.rep.eval();
        self.rep.count("sealed blocks");
        let last = &ev.phases[7];
        let wit = json!({
            "case_seed": self.case_seed, "origin": w.origin, "height": ev.height,
            "block_txs": ev.block_txs.iter().map(tx_brief).collect::<Vec<_>>(),
            "block_txs_hex": ev.block_txs.iter().map(tx_hex).collect::<Vec<_>>(),
        });
        let pool_at = |key: PoolKey| -> Option<PoolState> { last.pools.get(&pool_slot_key(&key.to_bytes())).and_then(|b| stdcode::deserialize::<PoolState>(b).ok()) };
        let mut builtins = vec![("MEL/SYM", PoolKey::new(Denom::Mel, Denom::Sym)), ("MEL/ERG", PoolKey::new(Denom::Mel, Denom::Erg))];
        if tip_active(ev.net, ev.height, TIP_902) {
            builtins.push(("ERG/SYM", PoolKey::new(Denom::Erg, Denom::Sym)));
        }
        for (name, key) in builtins {
            match pool_at(key) {
                None => self.rep.violate(&format!("C16|builtin-pool-missing|seal|{}", name), format!("built-in pool {} does not exist after sealing height {}", name, ev.height), wit.clone()),
                Some(p) => {
                    if p.lefts == 0 || p.rights == 0 {
                        self.rep.violate(&format!("C16|builtin-pool-empty-side|seal|{}", name), format!("built-in pool {} has reserves {}/{}", name, p.lefts, p.rights), wit.clone());
                    }
                }
            }
        }
        // backing of every pool's liquidity token
        let sums = coin_sums(last);
        let faucet_liq = w.faucets_done.iter().any(|t| t.outputs.iter().any(|o| crate::mon::c01::is_liq_denom(w, &o.denom)));
        let mut n_pools = 0;
        for (k, p) in last.pool_entries() {
            n_pools += 1;
            match w.pool_slots.get(k) {
                None => {
                    self.rep.violate("C16|unknown-pool-slot|seal|pools-tree", "the pools tree holds an entry under a key no transaction named".into(), wit.clone());
                }
                Some(bytes) => {
                    let ld = liq_denom_of_slot(bytes);
                    let held = sums.get(&ld).cloned().unwrap_or_default();
                    if held > BigInt::from(p.liqs) {
                        if faucet_liq {
                            self.rep.count("excluded: a test-network faucet minted a liquidity-token denomination in this history");
                        } else {
                            let multi = ev.block_txs.iter().filter(|t| t.kind == TxKind::LiqDeposit && PoolKey::from_bytes(&t.data).map(|pk| pool_slot_key(&pk.to_bytes()) == *k).unwrap_or(false)).count();
                            let cls = if multi >= 2 { "several-deposits-in-block" } else if multi == 1 { "single-deposit-in-block" } else { "no-deposit-in-block" };
                            let mut wj = wit.clone();
                            wj["slot"] = json!(hex::encode(bytes));
                            wj["held"] = json!(held.to_string());
                            wj["liqs"] = json!(p.liqs.to_string());
                            self.rep.violate(&format!("C16|liquidity-tokens-exceed-liqs|seal|{}", cls), format!("coins hold {} liquidity tokens of a pool that recorded {}", held, p.liqs), wj);
                        }
                    }
                    if held > BigInt::from(0) {
                        self.rep.count("pool/liquidity-token backings checked with tokens outstanding");
                    }
                }
            }
        }
        self.rep.max("max:pools in one state", n_pools);
        let pool_reqs = ev.block_txs.iter().filter(|t| PoolKey::from_bytes(&t.data).is_some()).count();
        if pool_reqs > 0 {
            let mut fp = ev.height.to_be_bytes().to_vec();
            for t in &ev.block_txs {
                fp.extend_from_slice(&t.hash_nosigs().0 .0);
            }
            self.rep.nontrivial(fnv(&fp));
        }
        if self.rep.samples.len() < self.rep.max_samples && pool_reqs >= 2 {
            let pools: BTreeMap<String, String> = last.pool_entries().map(|(k, p)| (w.pool_slots.get(k).map(hex::encode).unwrap_or_default(), format!("{}/{} liqs {}", p.lefts, p.rights, p.liqs))).collect();
            self.rep.sample(json!({"height": ev.height, "origin": w.origin, "requests_in_block": pool_reqs, "pools_after": pools}));
        }
    }
}

fn count_squat(mon: &mut C16, emptied: bool) {
    mon.rep.count(if emptied { "histories with a user-created ERG/SYM pool emptied again around the activation" } else { "histories with a user-created ERG/SYM pool kept across the activation" });
}

pub fn run(p: &Params) -> Report {
    let total = p.n(1200, 30000);
    let mine = p.share(total);
    let mut rng = Rng::new(p.shard_seed() ^ 0xC16);
    let mut mon = C16 { rep: Report::new("C16"), case_seed: 0 };
    mon.rep.rule = "cases = sealed blocks of pool-heavy random histories (swaps, deposits incl. several per pool per block with equal and perfect-square amounts, withdrawals incl. withdraw-everything, one-sided floods, subsidies and pegging, 8-40 blocks, all genesis classes, one history in six with mostly huge amounts; plus histories in which a user creates the ERG/SYM pool before the rules enable the built-in one and empties it again before or after the activation); after every seal the built-in pools must exist with both reserves non-zero, every entry of the pools tree must be a pool some transaction named, and for every pool the liquidity tokens summed over all unspent coins must not exceed its recorded liqs. Non-trivial = block with at least one pool request; distinct by height and member hashes".into();
    if p.only_case.is_none() {
        mon.rep.require("sealed blocks", p.n(2500, 50000));
        mon.rep.require("pool/liquidity-token backings checked with tokens outstanding", p.n(500, 10000));
    }
    for case in 0..mine {
        let case_seed = rng.next();
        if let Some(only) = p.only_case {
            if only != case_seed {
                continue;
            }
        }
        mon.case_seed = case_seed;
        if case % 12 == 5 {
            // a user-created ERG/SYM pool before the rules enable the built-in one (testnet < 500, mainnet <
            // 180000), deposited, swapped against, possibly emptied again before or after the activation
            let mut r = Rng::new(case_seed ^ 0x5c);
            let (net, act) = if r.chance(1, 2) { (NetID::Testnet, 500u64) } else { (NetID::Mainnet, 180_000u64) };
            let scripted = 3 + r.usize(3);
            let start = act - 1 - scripted as u64 + r.below(3);
            let mut w = World::fabricated(case_seed, net, start, 0, 1 << 30);
            let withdraw_in = match r.below(3) {
                0 => None,
                _ => Some(1 + r.usize(scripted - 1)),
            };
            self::count_squat(&mut mon, withdraw_in.is_some());
            squat_history(&mut w, withdraw_in, scripted, 4, &mut [&mut mon]);
            continue;
        }
        let mut w = World::random(case_seed);
        w.profile = Profile { normal: 10, newcustom: 6, faucet: 6, swap: 24, deposit: 26, withdraw: 20, stake: 1, doscmint: 1, hostile: 5, odd_spelling_permille: 60, wrong_kind_permille: 40, dependent_permille: 300, max_batch: 8, big_values_permille: 100, degenerate_permille: 60, fast_mint_permille: 0, crowd_permille: 0, big_block_permille: 0 };
        w.twin_deposits = case % 2 == 0;
        if case % 6 == 3 {
            // whales: amounts near their caps or log-uniform up to 2^120 against small or lopsided reserves
            w.profile.big_values_permille = 800;
            mon.rep.count("whale histories");
        }
        let blocks = 8 + (case % 33) as usize;
        run_history(&mut w, blocks, &mut [&mut mon]);
    }
    mon.rep
}
