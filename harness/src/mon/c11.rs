//! C11 - covenant cost is bounded by what is paid for.
use std::collections::HashMap;
use std::io::Write;

use melvm::opcode::OpCode;
use melvm::{Covenant, Value, VerifExecutor};
use serde_json::json;

use crate::conv::*;
use crate::guard::{guarded, msg_class, site};
use crate::refvm::{self, Op};
use crate::report::Report;
use crate::rng::{fnv, Rng};
use crate::Params;

const STEP_CAP: u64 = 3_000_000;

fn pushi(n: u128) -> Op {
    let mut a = [0u8; 32];
    a[16..].copy_from_slice(&n.to_be_bytes());
    Op::PushI(a)
}

struct Ctx<'a> {
    rep: &'a mut Report,
    journal: Option<std::fs::File>,
    /// families in which a budget was already exceeded: larger members are not run any more
    tripped: HashMap<String, u64>,
}

impl<'a> Ctx<'a> {
    fn journal(&mut self, s: &str) {
        if let Some(f) = self.journal.as_mut() {
            let _ = writeln!(f, "{}", s);
            let _ = f.flush();
        }
    }
}

/// Measures one program: weigh work, steps vs weight, allocation during weigh and execute.
/// `family`/`size` identify it; returns false if a budget was exceeded (caller stops growing the family).
fn measure(cx: &mut Ctx, family: &str, size: u64, ops: &[Op], heap: &[Value]) -> bool {
    if cx.tripped.contains_key(family) {
        cx.rep.count("skipped: family already over budget at a smaller size");
        return false;
    }
    cx.rep.eval();
    cx.journal(&format!("C11 family={} size={}", family, size));
    let n = ops.len() as u64;
    let code = refvm::encode(ops).map(|b| b.len() as u64).unwrap_or(0);
    let iops: Vec<OpCode> = ops.iter().map(op_to_impl).collect();
    let cov = Covenant::from_ops(&iops);
    let wit = |extra: serde_json::Value| json!({"family": family, "size": size, "opcodes": n, "code_bytes": code, "program_head": ops_brief(&ops[..ops.len().min(24)]), "measured": extra});
    let mut ok = true;

    // --- weighing
    melvm::opcode::verif::weight_work_reset();
    crate::alloc::start();
    let t0 = std::time::Instant::now();
    let w = guarded(|| cov.weight());
    let weigh_us = t0.elapsed().as_micros() as u64;
    let (wpeak, _wtotal) = crate::alloc::stop();
    let work = melvm::opcode::verif::weight_work_get();
    let weight = match w {
        Ok(w) => w,
        Err(p) => {
            cx.rep.violate(&format!("C11|weigh-panics|Covenant::weight|{}", family), p.message.clone(), wit(json!(null)));
            return false;
        }
    };
    let work_budget = 4 * n * n + 64;
    cx.rep.max("max:weigh work per opcode^2 x1000", work * 1000 / (n * n).max(1));
    cx.rep.max("max:weigh microseconds (soft signal)", weigh_us);
    if work > work_budget {
        cx.rep.violate(
            &format!("C11|weigh-work-superpolynomial|Covenant::weight|{}", family),
            format!("weighing {} opcodes visited {} opcodes (budget 4n^2+64 = {})", n, work, work_budget),
            wit(json!({"work": work, "budget": work_budget, "weigh_us": weigh_us})),
        );
        ok = false;
    }
    if wpeak > (1 << 20) + 4096 * code {
        cx.rep.violate(&format!("C11|weigh-memory|Covenant::weight|{}", family), format!("weighing allocated a peak of {} bytes for {} code bytes", wpeak, code), wit(json!({"peak": wpeak})));
        ok = false;
    }
    let rw = refvm::weight(ops);
    if rw != weight {
        cx.rep.count("weight differs from reference (C12's business)");
    }
    if !ok {
        cx.tripped.insert(family.to_string(), size);
        return false;
    }

    // --- executing, counting steps
    if weight > STEP_CAP as u128 {
        cx.rep.count("execution skipped: weight above the per-case step cap (weigh still measured)");
        cx.rep.nontrivial(fnv(format!("{}|{}", family, size).as_bytes()));
        return true;
    }
    let heap_bytes: u64 = heap.iter().map(|v| value_len_hint(v) as u64 + 40).sum();
    let hv: HashMap<u16, Value> = heap.iter().enumerate().map(|(i, v)| (i as u16, v.clone())).collect();
    let len = iops.len();
    let mut ex = VerifExecutor::new(iops, hv);
    crate::alloc::start();
    let t1 = std::time::Instant::now();
    let mut steps = 0u64;
    let mut panicked = None;
    let mut over_budget_live = false;
    let mem_budget = (1u64 << 20) + 4096 * (weight as u64 + code + heap_bytes);
    let r = guarded(|| {
        while ex.pc() < len {
            steps += 1;
            if ex.step().is_none() {
                break;
            }
            if steps > weight as u64 + 8 || steps > STEP_CAP + 8 {
                break;
            }
        }
    });
    if let Err(p) = r {
        panicked = Some(p);
    }
    let exec_us = t1.elapsed().as_micros() as u64;
    let (peak, total) = crate::alloc::stop();
    if peak > mem_budget {
        over_budget_live = true;
    }
    cx.rep.max("max:execute microseconds (soft signal)", exec_us);
    cx.rep.max("max:steps/weight x1000", steps * 1000 / (weight as u64).max(1));
    cx.rep.max("max:peak bytes / memory budget x1000", peak * 1000 / mem_budget);
    cx.rep.count_n("instructions executed", steps);
    cx.rep.nontrivial(fnv(format!("{}|{}", family, size).as_bytes()));
    let m = json!({"weight": weight.to_string(), "steps": steps, "peak_bytes": peak, "total_bytes": total, "mem_budget": mem_budget, "exec_us": exec_us});
    if let Some(p) = panicked.as_ref().filter(|p| crate::guard::is_debug_only_dependency_overflow(p)) {
        cx.rep.count(&format!("excluded: overflow trap inside dependency '{}' that exists only with overflow checks (lengths >= 2^64)", p.origin));
        panicked = None;
    }
    if let Some(p) = panicked {
        cx.rep.violate(&format!("C11|execute-panics|Executor::step|{}|{}", family, msg_class(&p.message)), format!("{} at {}", p.message, site(&p.location)), wit(m.clone()));
        ok = false;
    }
    if steps as u128 > weight {
        cx.rep.violate(&format!("C11|steps-exceed-weight|Executor::step|{}", family), format!("executed {} instructions with weight {}", steps, weight), wit(m.clone()));
        ok = false;
    }
    if over_budget_live {
        cx.rep.violate(
            &format!("C11|memory-superpolynomial|Executor::step|{}", family),
            format!("peak {} bytes while the budget 1MiB + 4KiB*(weight+code+heap) is {}", peak, mem_budget),
            wit(m.clone()),
        );
        ok = false;
    }
    if total > 64 * mem_budget {
        cx.rep.violate(&format!("C11|allocation-superpolynomial|Executor::step|{}", family), format!("cumulative {} bytes, budget {}", total, 64 * mem_budget), wit(m.clone()));
        ok = false;
    }
    if !ok {
        cx.tripped.insert(family.to_string(), size);
    }
    if cx.rep.samples.len() < 4 && size > 4 {
        cx.rep.sample(json!({"family": family, "size": size, "measured": m}));
    }
    ok
}

fn nested_loops(k: usize, iters: u16, body: &[Op]) -> Vec<Op> {
    // Loop(i, rest) Loop(i, rest-1) ... body
    let mut ops = vec![];
    for d in 0..k {
        let remaining = (k - d - 1) + body.len();
        ops.push(Op::Loop(iters, remaining as u16));
    }
    ops.extend_from_slice(body);
    ops
}

fn doubling(rounds: usize, vector: bool, consumer: &[Op]) -> Vec<Op> {
    let mut ops = if vector { vec![Op::VEmpty, pushi(7), Op::VCons] } else { vec![Op::PushB(vec![0xab; 1])] };
    for _ in 0..rounds {
        ops.push(Op::Dup);
        ops.push(if vector { Op::VAppend } else { Op::BAppend });
    }
    ops.extend_from_slice(consumer);
    ops
}

fn byte_consumers() -> Vec<(&'static str, Vec<Op>)> {
    let k32 = Op::PushB(vec![1u8; 32]);
    let s64 = Op::PushB(vec![2u8; 64]);
    vec![
        ("Hash", vec![Op::Hash(65535)]),
        ("BtoI", vec![Op::BtoI]),
        ("BLength", vec![Op::BLength]),
        ("BRef", vec![pushi(5), Op::StoreImm(50), Op::StoreImm(51), Op::LoadImm(50), Op::LoadImm(51), Op::BRef]),
        ("BSlice", vec![Op::StoreImm(51), pushi(9), pushi(3), Op::LoadImm(51), Op::BSlice]),
        ("BSet", vec![Op::StoreImm(51), pushi(1), pushi(3), Op::LoadImm(51), Op::BSet]),
        ("BCons", vec![Op::StoreImm(51), Op::LoadImm(51), pushi(1), Op::BCons]),
        ("BPush", vec![Op::StoreImm(51), pushi(1), Op::LoadImm(51), Op::BPush]),
        // SigEOk pops message, key, signature: the big string in each position
        ("SigEOk-message", vec![Op::StoreImm(51), s64.clone(), k32.clone(), Op::LoadImm(51), Op::SigEOk(65535)]),
        ("SigEOk-key", vec![Op::StoreImm(51), s64.clone(), Op::LoadImm(51), k32.clone(), Op::SigEOk(32)]),
        ("SigEOk-signature", vec![Op::StoreImm(51), Op::LoadImm(51), k32.clone(), k32.clone(), Op::SigEOk(32)]),
        ("Store-Load", vec![Op::StoreImm(51), Op::LoadImm(51), Op::LoadImm(51), Op::LoadImm(51)]),
        ("Dup", vec![Op::Dup, Op::Dup, Op::Dup]),
        ("TypeQ", vec![Op::TypeQ]),
        ("Bez", vec![Op::Bez(0)]),
        ("Eql", vec![Op::Dup, Op::Eql]),
        ("ItoB-type-error", vec![Op::ItoB]),
        ("left-on-stack", vec![]),
    ]
}

fn vector_consumers() -> Vec<(&'static str, Vec<Op>)> {
    vec![
        ("VLength", vec![Op::VLength]),
        ("VRef", vec![Op::StoreImm(51), pushi(5), Op::LoadImm(51), Op::VRef]),
        ("VSlice", vec![Op::StoreImm(51), pushi(9), pushi(3), Op::LoadImm(51), Op::VSlice]),
        ("VSet", vec![Op::StoreImm(51), pushi(1), pushi(3), Op::LoadImm(51), Op::VSet]),
        ("VCons", vec![Op::StoreImm(51), Op::LoadImm(51), pushi(1), Op::VCons]),
        ("VPush", vec![Op::StoreImm(51), pushi(1), Op::LoadImm(51), Op::VPush]),
        ("Dup-TypeQ", vec![Op::Dup, Op::TypeQ]),
        ("left-on-stack", vec![]),
    ]
}

/// Work must be paid for: whatever a transaction makes the validator execute is bounded by the fee it offers.
/// Coins locked by loop covenants of known weight are spent at fee multipliers > 0 with fees from 0 up to the
/// minimum; the process-wide instruction counter (hook) is read around `apply_tx`.
fn paid_work(rep: &mut Report, p: &Params) {
    use crate::world::*;
    use bytes::Bytes;
    use melstructs::{BlockHeight, CoinData, CoinDataHeight, CoinID, CoinValue, Denom, NetID, Transaction, TxHash, TxKind};
    use num::BigUint;
    let mut r = Rng::new(p.shard_seed() ^ 0x9a1d);
    let n = p.share(p.n(320, 6400));
    for i in 0..n {
        let mult: u128 = *r.pick(&[1000u128, 65_536, 1_000_000, 1 << 30]);
        let net = *r.pick(&[NetID::Custom02, NetID::Mainnet, NetID::Testnet]);
        let (n1, n2) = *r.pick(&[(100u16, 1u16), (10_000, 1), (65_535, 1), (300, 300), (1000, 700), (65_535, 20)]);
        // Loop(n1, 3){ Loop(n2, 1){ Noop } Noop }  PushI(1)
        // one probe in three carries weight that no fee can cover: nine nested loops (their weight exceeds 2^128) that are
        // jumped over, in the spent coin's own covenant or in a second, unused covenant listed before it
        let variant = r.below(3);
        let nest = nested_loops(9, 65_535, &[Op::Noop]);
        let ops = if variant == 1 {
            let mut v = vec![Op::Jmp(nest.len() as u16)];
            v.extend(nest.iter().cloned());
            v.extend([Op::Loop(n1, 1), Op::Noop, pushi(1)]);
            v
        } else {
            vec![Op::Loop(n1, 3), Op::Loop(n2, 1), Op::Noop, Op::Noop, pushi(1)]
        };
        let bytes = refvm::encode(&ops).unwrap();
        let unused: Option<Vec<u8>> = if variant == 2 { Some(refvm::encode(&nest).unwrap()) } else { None };
        let cov_weight = refvm::weight(&ops);
        let id = CoinID { txhash: TxHash(tmelcrypt::hash_keyed(b"c11paid", (p.shard_seed() ^ i).to_be_bytes())), index: 0 };
        let value: u128 = 1 << 100;
        let mut fab = Fab::new(net, 1_100_000 + r.below(100));
        fab.fee_multiplier = mult;
        fab.coins.push((id, CoinDataHeight { coin_data: CoinData { covhash: addr_of(&bytes), value: CoinValue(value), denom: Denom::Mel, additional_data: Bytes::new() }, height: BlockHeight(1_000_000) }));
        let db = new_db();
        let st = fab.build(&db).next_unsealed();
        // the spender is of any kind (a Faucet-kind transaction may list inputs too; Stake/DoscMint/pool kinds with data that
        // will not parse are refused sooner or later - the question here is only what they made the validator run first)
        let kind = if r.chance(1, 2) { TxKind::Normal } else { *r.pick(&[TxKind::Faucet, TxKind::Stake, TxKind::DoscMint, TxKind::Swap, TxKind::LiqDeposit, TxKind::LiqWithdraw]) };
        let data = if r.chance(1, 2) { Bytes::new() } else { Bytes::from(r.bytes(1 + r.clone().usize(40))) };
        let mk = |fee: u128| Transaction {
            kind,
            inputs: vec![id],
            outputs: vec![CoinData { covhash: crate::gen::destroy_addr(), value: CoinValue(value - fee), denom: Denom::Mel, additional_data: Bytes::new() }],
            fee: CoinValue(fee),
            covenants: unused.iter().map(|u| Bytes::from(u.clone())).chain(std::iter::once(Bytes::from(bytes.clone()))).collect(),
            data: data.clone(),
            sigs: vec![],
        };
        let min = crate::model::big_to_u128_sat(&crate::model::ref_min_fee(&mk(0), mult));
        let fees: Vec<(u128, &str)> = if min <= value / 2 {
            vec![(0u128, "fee=0"), (min / 2, "fee=min/2"), (min.saturating_sub(1), "fee=min-1"), (min, "fee=min"), (min + 5, "fee=min+5")]
        } else {
            rep.count("paid-work probes listing a covenant whose weight no fee can cover");
            vec![(0u128, "fee=0,unpayable-weight"), (2000, "fee=2000,unpayable-weight"), (value / 2, "fee=half-the-coin,unpayable-weight")]
        };
        for (fee, cls) in fees {
            let tx = mk(fee);
            let mut s2 = st.clone();
            let before = melvm::opcode::verif::steps_executed();
            let res = guarded(|| s2.apply_tx(&tx));
            let steps = melvm::opcode::verif::steps_executed() - before;
            rep.eval();
            rep.count("apply_tx calls with the executed instructions counted");
            rep.count_n("instructions executed inside apply_tx", steps);
            rep.nontrivial(fnv(format!("paid|{}|{}|{}|{}|{}", mult, n1, n2, cls, i).as_bytes()));
            let accepted = matches!(res, Ok(Ok(())));
            rep.count(&format!("paid-work probes: {} -> {}", cls, if accepted { "accepted" } else { "rejected" }));
            rep.count(&format!("paid-work probes with a spender of kind {}", kind));
            // steps * mult / 65536 <= fee offered
            let cost = BigUint::from(steps) * BigUint::from(mult) / BigUint::from(65536u32);
            if cost > BigUint::from(fee) {
                rep.violate(
                    &format!("C11|unpaid-work|apply_tx|{}{}", if fee < min { "fee-below-minimum" } else { "fee-at-or-above-minimum" }, if kind == TxKind::Normal { String::new() } else { format!(",kind={}", kind) }),
                    format!("a transaction offering a fee of {} (minimum {}) made the validator execute {} instructions, worth {} at multiplier {}", fee, min, steps, cost, mult),
                    json!({"multiplier": mult.to_string(), "fee": fee.to_string(), "minimum_fee": min.to_string(), "covenant_weight": cov_weight.to_string(), "instructions_executed": steps, "accepted": accepted, "covenant": ops_brief(&ops), "net": format!("{:?}", net), "kind": format!("{}", kind), "tx_hex": hex::encode(stdcode::serialize(&tx).unwrap()), "result": format!("{:?}", res.as_ref().map_err(|e| e.message.clone()))}),
                );
            }
            if fee >= min && !accepted {
                rep.count("paid-work probes rejected although the fee covers the weight (observed)");
            }
        }
    }
}

pub fn run(p: &Params) -> Report {
    let mut rep = Report::new("C11");
    rep.rule = "cases = (adversarial program family, size): k nested loops (k = 1..22 quick / ..40 thorough) with 0/1/2/65535 iterations and short/long bodies, sibling loops, overrunning bodies, loops with an empty body followed by a cheap or a costly instruction (alone, repeated, inside and at the end of an enclosing loop), jump-heavy code, jumps landing inside the body of a loop (zero-iteration loops included) past its Loop instruction, byte-string and vector self-append doubling (1..70 rounds) followed by each consuming opcode in every operand position, random decodable strings; and coins locked by loop covenants of weight 10^2..10^6 spent through apply_tx at fee multipliers 10^3..2^30 with fees 0, min/2, min-1, min, min+5, where a process-wide instruction counter (hook) must show instructions x multiplier / 65536 <= fee offered. Per case the hooked executor counts executed instructions (must be <= weight), the hooked weight function counts visited opcodes (budget 4n^2+64), a counting allocator measures peak and cumulative bytes during weigh and execute (budget 1 MiB + 4 KiB*(weight+code+heap), cumulative 64x). A family is grown until its first budget excess. Non-trivial = every measured (family,size); distinct by that pair".into();
    let journal = p.journal.as_ref().and_then(|j| std::fs::File::create(j).ok());
    let mut rep2 = Report::new("C11");
    std::mem::swap(&mut rep, &mut rep2);
    let mut report = rep2;
    let mut cx = Ctx { rep: &mut report, journal, tripped: HashMap::new() };
    let mut fams: Vec<(String, u64, Vec<Op>)> = vec![];
    let kmax = if p.thorough { 40 } else { 22 };
    for k in 1..=kmax {
        for (iters, tag) in [(0u16, "0"), (1, "1"), (2, "2"), (65535, "65535")] {
            fams.push((format!("nested-loops,iters={},body=noop", tag), k as u64, nested_loops(k, iters, &[Op::Noop])));
        }
        fams.push((format!("nested-loops,iters=2,body=counter"), k as u64, {
            let mut v = vec![pushi(0), Op::StoreImm(9)];
            v.extend(nested_loops(k, 2, &[Op::LoadImm(9), pushi(1), Op::Add, Op::StoreImm(9)]));
            v
        }));
        // nested loops that share the end of their bodies strictly inside the program (something follows)
        fams.push(("nested-loops,iters=3,shared-inner-end,trailing-code".into(), k as u64, {
            let mut v = vec![pushi(0), Op::StoreImm(9)];
            v.extend(nested_loops(k, 3, &[Op::LoadImm(9), pushi(1), Op::Add, Op::StoreImm(9)]));
            v.extend([Op::LoadImm(9), Op::Noop]);
            v
        }));
        // claimed body lengths at the u16 maximum (clipped by the weigher, overrun at run time)
        let mut v = vec![];
        for _ in 0..k {
            v.push(Op::Loop(2, 65535));
        }
        v.push(Op::Noop);
        fams.push(("nested-loops,iters=2,body-length=65535".into(), k as u64, v));
        // sibling loops
        let mut v = vec![];
        for _ in 0..k {
            v.extend([Op::Loop(3, 2), Op::Noop, Op::Noop]);
        }
        fams.push(("sibling-loops".into(), k as u64, v));
    }
    // loops with an empty body (length 0): weighed as one instruction, whatever follows is weighed once, so it
    // must also run once - alone, repeated, inside an enclosing loop, and as the last instruction of a body
    for (tag, pre, then) in [
        ("noop", vec![], Op::Noop),
        ("dup", vec![pushi(1)], Op::Dup),
        ("hash", vec![Op::PushB(vec![7; 32])], Op::Hash(32)),
        ("add", vec![pushi(1), pushi(1), Op::Dup, Op::Dup, Op::Dup], Op::Add),
    ] {
        for k in [1usize, 2, 4, 8, 16] {
            for (iters, itag) in [(1u16, "1"), (2, "2"), (65535, "65535")] {
                let mut v = pre.clone();
                for _ in 0..k {
                    v.extend([Op::Loop(iters, 0), then.clone()]);
                }
                fams.push((format!("empty-body-loop,iters={},then={}", itag, tag), k as u64, v));
                let mut v = pre.clone();
                v.push(Op::Loop(k as u16, 2));
                v.extend([Op::Loop(iters, 0), then.clone()]);
                fams.push((format!("empty-body-loop-inside-loop,iters={},then={}", itag, tag), k as u64, v));
                let mut v = pre.clone();
                v.extend([Op::Loop(k as u16, 2), then.clone(), Op::Loop(iters, 0), Op::Noop]);
                fams.push((format!("empty-body-loop-ends-enclosing-body,iters={},then={}", itag, tag), k as u64, v));
            }
        }
    }
    for n in [4usize, 16, 64, 256, 1024, 4096] {
        // jump-heavy: alternating jumps of gap 0 and 1
        let mut v = vec![];
        for i in 0..n {
            v.push(if i % 2 == 0 { Op::Jmp(0) } else { Op::Jmp(1) });
        }
        v.push(pushi(1));
        fams.push(("jump-heavy".into(), n as u64, v));
        // many loops each with a big count over a tiny body, jumped out of on the first pass
        let mut v = vec![];
        for _ in 0..n.min(512) {
            v.extend([Op::Loop(65535, 2), Op::Jmp(1), Op::Noop]);
        }
        fams.push(("loop-then-jump-out".into(), n as u64, v));
    }
    // jumps that land inside a loop's body without passing its Loop instruction (zero-iteration loops included): the body
    // then runs as straight-line code, so it has to be part of the weight whatever the loop's count says
    for k in [1u16, 4, 16, 64, 256, 1000] {
        for (iters, itag) in [(0u16, "0"), (1, "1"), (3, "3")] {
            for (jname, jump) in [("jmp", vec![Op::Jmp(1)]), ("bez", vec![pushi(0), Op::Bez(1)]), ("bnz", vec![pushi(1), Op::Bnz(1)])] {
                // pushi 0; <jump over the Loop instruction>; Loop(iters, 3){ Loop(k, 2){ pushi 1; Add } }
                let mut v = vec![pushi(0)];
                v.extend(jump.clone());
                v.extend([Op::Loop(iters, 3), Op::Loop(k, 2), pushi(1), Op::Add]);
                fams.push((format!("jump-into-loop-body,iters={},{}", itag, jname), k as u64, v));
                // the same inside an enclosing loop that repeats the jump
                let mut v = vec![pushi(0), Op::Loop(k.min(300), (jump.len() + 4) as u16)];
                v.extend(jump.clone());
                v.extend([Op::Loop(iters, 3), Op::Loop(50, 2), pushi(1), Op::Add]);
                fams.push((format!("jump-into-loop-body-inside-loop,iters={},{}", itag, jname), k as u64, v));
            }
        }
    }
    let rounds_max = 70;
    for rounds in (1..=rounds_max).filter(|r| *r <= 30 || r % 8 == 6) {
        for (name, cons) in byte_consumers() {
            fams.push((format!("bytes-doubling->{}", name), rounds as u64, doubling(rounds, false, &cons)));
        }
        for (name, cons) in vector_consumers() {
            fams.push((format!("vector-doubling->{}", name), rounds as u64, doubling(rounds, true, &cons)));
        }
        // doubling inside a counted loop instead of unrolled
        fams.push(("bytes-doubling-in-loop->BtoI".into(), rounds as u64, vec![Op::PushB(vec![1]), Op::Loop(rounds as u16, 2), Op::Dup, Op::BAppend, Op::BtoI]));
        fams.push(("bytes-doubling-in-loop->Hash".into(), rounds as u64, vec![Op::PushB(vec![1]), Op::Loop(rounds as u16, 2), Op::Dup, Op::BAppend, Op::Hash(65535)]));
    }
    // run this shard's families in size order (each family is owned by one shard so that "stop at first excess" works)
    let mut names: Vec<String> = fams.iter().map(|f| f.0.clone()).collect();
    names.sort();
    names.dedup();
    for (i, name) in names.iter().enumerate() {
        if (i as u64) % p.nshards != p.shard {
            continue;
        }
        let mut mine: Vec<&(String, u64, Vec<Op>)> = fams.iter().filter(|f| &f.0 == name).collect();
        mine.sort_by_key(|f| f.1);
        for f in mine {
            if !measure(&mut cx, &f.0, f.1, &f.2, &[]) {
                break;
            }
        }
    }
    // random decodable strings up to 4 KiB (nesting capped so that weighing them is cheap either way)
    let mut r = Rng::new(p.shard_seed() ^ 0xC11);
    let nrand = p.share(p.n(20_000, 500_000));
    for i in 0..nrand {
        let n_ops = 1 + r.usize(if i % 10 == 0 { 900 } else { 60 });
        let mut depth = 0;
        let ops: Vec<Op> = (0..n_ops)
            .map(|_| {
                let mut o = crate::mon::c12::random_op(&mut r, false);
                if let Op::Loop(_, _) = o {
                    depth += 1;
                    if depth > 8 {
                        o = Op::Noop;
                    } else {
                        o = Op::Loop(r.below(40) as u16, r.below(20) as u16);
                    }
                }
                o
            })
            .collect();
        let heap = vec![Value::Int(5u32.into()), Value::from_bytes(&[1, 2, 3])];
        measure(&mut cx, "random-decodable", i, &ops, &heap);
        cx.tripped.remove("random-decodable");
    }
    drop(cx);
    paid_work(&mut report, p);
    report.rule = rep.rule;
    report.require("instructions executed", 100_000);
    report
}
