//! Reference MelVM: decoder, encoder, weight function and interpreter, written from the
//! specification table in DESIGN.md Appendix A. It shares no code with `melvm`: programs are
//! `Vec<Op>`, values are plain `Vec`s and integers are `BigUint` reduced mod 2^256.
use num::bigint::BigUint;
use num::{One, Zero};
use std::collections::HashMap;

#[derive(Clone, Debug, PartialEq, Eq)]
pub enum Op {
    Noop,
    Add,
    Sub,
    Mul,
    Div,
    Rem,
    Exp(u8),
    And,
    Or,
    Xor,
    Not,
    Eql,
    Lt,
    Gt,
    Shl,
    Shr,
    Hash(u16),
    SigEOk(u16),
    Store,
    Load,
    StoreImm(u16),
    LoadImm(u16),
    VRef,
    VAppend,
    VEmpty,
    VLength,
    VSlice,
    VSet,
    VPush,
    VCons,
    BRef,
    BAppend,
    BEmpty,
    BLength,
    BSlice,
    BSet,
    BPush,
    BCons,
    Bez(u16),
    Bnz(u16),
    Jmp(u16),
    Loop(u16, u16),
    ItoB,
    BtoI,
    TypeQ,
    PushB(Vec<u8>),
    PushI([u8; 32]),
    PushIC([u8; 32]),
    Dup,
}

#[derive(Clone, Debug, PartialEq, Eq)]
pub enum RV {
    Int(BigUint),
    Bytes(Vec<u8>),
    Vector(Vec<RV>),
}

pub fn two256() -> BigUint {
    BigUint::one() << 256
}

pub fn int_from_be(b: &[u8; 32]) -> BigUint {
    BigUint::from_bytes_be(b)
}

pub fn int_to_be(i: &BigUint) -> [u8; 32] {
    let v = i.to_bytes_be();
    let mut out = [0u8; 32];
    assert!(v.len() <= 32);
    out[32 - v.len()..].copy_from_slice(&v);
    out
}

// ---------------------------------------------------------------------------------------------
// codec

fn take<'a>(b: &mut &'a [u8], n: usize) -> Option<&'a [u8]> {
    if b.len() < n {
        return None;
    }
    let (h, t) = b.split_at(n);
    *b = t;
    Some(h)
}
fn u16arg(b: &mut &[u8]) -> Option<u16> {
    let x = take(b, 2)?;
    Some(((x[0] as u16) << 8) | x[1] as u16)
}

/// Decodes a whole program; `None` when the byte string is not a program.
pub fn decode(mut b: &[u8]) -> Option<Vec<Op>> {
    let mut out = Vec::new();
    while !b.is_empty() {
        let opc = take(&mut b, 1)?[0];
        let op = match opc {
            0x09 => Op::Noop,
            0x10 => Op::Add,
            0x11 => Op::Sub,
            0x12 => Op::Mul,
            0x13 => Op::Div,
            0x14 => Op::Rem,
            0x15 => Op::Exp(take(&mut b, 1)?[0]),
            0x20 => Op::And,
            0x21 => Op::Or,
            0x22 => Op::Xor,
            0x23 => Op::Not,
            0x24 => Op::Eql,
            0x25 => Op::Lt,
            0x26 => Op::Gt,
            0x27 => Op::Shl,
            0x28 => Op::Shr,
            0x30 => Op::Hash(u16arg(&mut b)?),
            0x32 => Op::SigEOk(u16arg(&mut b)?),
            0x40 => Op::Load,
            0x41 => Op::Store,
            0x42 => Op::LoadImm(u16arg(&mut b)?),
            0x43 => Op::StoreImm(u16arg(&mut b)?),
            0x50 => Op::VRef,
            0x51 => Op::VAppend,
            0x52 => Op::VEmpty,
            0x53 => Op::VLength,
            0x54 => Op::VSlice,
            0x55 => Op::VSet,
            0x56 => Op::VPush,
            0x57 => Op::VCons,
            0x70 => Op::BRef,
            0x71 => Op::BAppend,
            0x72 => Op::BEmpty,
            0x73 => Op::BLength,
            0x74 => Op::BSlice,
            0x75 => Op::BSet,
            0x76 => Op::BPush,
            0x77 => Op::BCons,
            0xa0 => Op::Jmp(u16arg(&mut b)?),
            0xa1 => Op::Bez(u16arg(&mut b)?),
            0xa2 => Op::Bnz(u16arg(&mut b)?),
            0xb0 => {
                let n = u16arg(&mut b)?;
                let c = u16arg(&mut b)?;
                Op::Loop(n, c)
            }
            0xc0 => Op::ItoB,
            0xc1 => Op::BtoI,
            0xc2 => Op::TypeQ,
            0xf0 => {
                let n = take(&mut b, 1)?[0] as usize;
                Op::PushB(take(&mut b, n)?.to_vec())
            }
            0xf1 => {
                let mut a = [0u8; 32];
                a.copy_from_slice(take(&mut b, 32)?);
                Op::PushI(a)
            }
            0xf2 => {
                let n = take(&mut b, 1)?[0] as usize;
                if n > 32 {
                    return None;
                }
                let body = take(&mut b, n)?;
                // canonical: no leading zero byte
                if n > 0 && body[0] == 0 {
                    return None;
                }
                let mut a = [0u8; 32];
                a[32 - n..].copy_from_slice(body);
                Op::PushIC(a)
            }
            0xff => Op::Dup,
            _ => return None,
        };
        out.push(op);
    }
    Some(out)
}

/// Encodes a program; `None` when an operand is not representable (PushB longer than 255 bytes).
pub fn encode(ops: &[Op]) -> Option<Vec<u8>> {
    let mut o = Vec::new();
    for op in ops {
        match op {
            Op::Noop => o.push(0x09),
            Op::Add => o.push(0x10),
            Op::Sub => o.push(0x11),
            Op::Mul => o.push(0x12),
            Op::Div => o.push(0x13),
            Op::Rem => o.push(0x14),
            Op::Exp(k) => {
                o.push(0x15);
                o.push(*k)
            }
            Op::And => o.push(0x20),
            Op::Or => o.push(0x21),
            Op::Xor => o.push(0x22),
            Op::Not => o.push(0x23),
            Op::Eql => o.push(0x24),
            Op::Lt => o.push(0x25),
            Op::Gt => o.push(0x26),
            Op::Shl => o.push(0x27),
            Op::Shr => o.push(0x28),
            Op::Hash(n) => {
                o.push(0x30);
                o.extend_from_slice(&n.to_be_bytes())
            }
            Op::SigEOk(n) => {
                o.push(0x32);
                o.extend_from_slice(&n.to_be_bytes())
            }
            Op::Load => o.push(0x40),
            Op::Store => o.push(0x41),
            Op::LoadImm(n) => {
                o.push(0x42);
                o.extend_from_slice(&n.to_be_bytes())
            }
            Op::StoreImm(n) => {
                o.push(0x43);
                o.extend_from_slice(&n.to_be_bytes())
            }
            Op::VRef => o.push(0x50),
            Op::VAppend => o.push(0x51),
            Op::VEmpty => o.push(0x52),
            Op::VLength => o.push(0x53),
            Op::VSlice => o.push(0x54),
            Op::VSet => o.push(0x55),
            Op::VPush => o.push(0x56),
            Op::VCons => o.push(0x57),
            Op::BRef => o.push(0x70),
            Op::BAppend => o.push(0x71),
            Op::BEmpty => o.push(0x72),
            Op::BLength => o.push(0x73),
            Op::BSlice => o.push(0x74),
            Op::BSet => o.push(0x75),
            Op::BPush => o.push(0x76),
            Op::BCons => o.push(0x77),
            Op::Jmp(n) => {
                o.push(0xa0);
                o.extend_from_slice(&n.to_be_bytes())
            }
            Op::Bez(n) => {
                o.push(0xa1);
                o.extend_from_slice(&n.to_be_bytes())
            }
            Op::Bnz(n) => {
                o.push(0xa2);
                o.extend_from_slice(&n.to_be_bytes())
            }
            Op::Loop(n, c) => {
                o.push(0xb0);
                o.extend_from_slice(&n.to_be_bytes());
                o.extend_from_slice(&c.to_be_bytes())
            }
            Op::ItoB => o.push(0xc0),
            Op::BtoI => o.push(0xc1),
            Op::TypeQ => o.push(0xc2),
            Op::PushB(b) => {
                if b.len() > 255 {
                    return None;
                }
                o.push(0xf0);
                o.push(b.len() as u8);
                o.extend_from_slice(b)
            }
            Op::PushI(a) => {
                o.push(0xf1);
                o.extend_from_slice(a)
            }
            Op::PushIC(a) => {
                o.push(0xf2);
                let lz = a.iter().take_while(|x| **x == 0).count();
                o.push((32 - lz) as u8);
                o.extend_from_slice(&a[lz..])
            }
            Op::Dup => o.push(0xff),
        }
    }
    Some(o)
}

// ---------------------------------------------------------------------------------------------
// weight

fn sat_add(a: u128, b: u128) -> u128 {
    a.saturating_add(b)
}

fn op_weight(op: &Op) -> u128 {
    match op {
        Op::Noop => 1,
        Op::Add | Op::Sub => 4,
        Op::Mul | Op::Div | Op::Rem => 6,
        Op::Exp(k) => 6 + 10 * (*k as u128 + 1),
        Op::And | Op::Or | Op::Xor | Op::Not | Op::Eql | Op::Lt | Op::Gt | Op::Shl | Op::Shr => 4,
        Op::Hash(n) => 50 + *n as u128,
        Op::SigEOk(n) => 100 + *n as u128,
        Op::Store | Op::Load => 10,
        Op::StoreImm(_) | Op::LoadImm(_) => 4,
        Op::VRef | Op::BRef => 10,
        Op::VSet | Op::BSet => 20,
        Op::VAppend => 50,
        Op::BAppend => 10,
        Op::VSlice | Op::BSlice => 50,
        Op::VLength | Op::BLength | Op::VEmpty | Op::BEmpty | Op::TypeQ | Op::Dup => 4,
        Op::VPush | Op::VCons | Op::BPush | Op::BCons => 10,
        Op::ItoB | Op::BtoI => 50,
        Op::Bez(_) | Op::Bnz(_) | Op::Jmp(_) => 1,
        Op::PushB(_) | Op::PushI(_) | Op::PushIC(_) => 1,
        Op::Loop(_, _) => unreachable!(),
    }
}

/// Weight of a program: sum over instructions; Loop(n,c) = 1 + n * weight(body clipped to the
/// enclosing range), body instructions also counted once in sequence. Memoised per
/// (start,end) so the cost is polynomial; all arithmetic saturates at u128::MAX.
pub fn weight(ops: &[Op]) -> u128 {
    let mut memo: HashMap<(usize, usize), u128> = HashMap::new();
    range_weight(ops, 0, ops.len(), &mut memo)
}

fn range_weight(ops: &[Op], start: usize, end: usize, memo: &mut HashMap<(usize, usize), u128>) -> u128 {
    if let Some(v) = memo.get(&(start, end)) {
        return *v;
    }
    let mut sum = 0u128;
    for i in start..end {
        let w = match &ops[i] {
            Op::Loop(n, c) => {
                let bstart = i + 1;
                let bend = (bstart + *c as usize).min(end);
                let body = range_weight(ops, bstart, bend, memo);
                sat_add(body.saturating_mul(*n as u128), 1)
            }
            other => op_weight(other),
        };
        sum = sat_add(sum, w);
    }
    memo.insert((start, end), sum);
    sum
}

// ---------------------------------------------------------------------------------------------
// interpreter

/// Outcome of a reference run.
#[derive(Clone, Debug, PartialEq, Eq)]
pub enum Outcome {
    /// Execution failed (underflow, type error, range error, bad nesting) or the stack was empty at the end.
    Fail,
    /// Final value on top of the stack.
    Value(RV),
    /// The run left the domain in which the specification pins the behaviour down (DESIGN §5(6)); not compared.
    OutOfDomain(&'static str),
}

pub struct RefVm<'a> {
    pub ops: &'a [Op],
    pub stack: Vec<RV>,
    pub heap: HashMap<u16, RV>,
    pub pc: usize,
    pub loops: Vec<(usize, usize, u32)>, // first, last, repetitions remaining after the current one
    pub steps: u64,
    pub max_len: usize,
    pub step_cap: u64,
}

fn truthy(v: &RV) -> bool {
    match v {
        RV::Int(i) => !i.is_zero(),
        _ => true,
    }
}

#[derive(Clone, Debug, PartialEq, Eq)]
pub enum StepErr {
    Fail,
    Ood(&'static str),
}

impl<'a> RefVm<'a> {
    pub fn new(ops: &'a [Op], heap: HashMap<u16, RV>) -> Self {
        RefVm { ops, stack: vec![], heap, pc: 0, loops: vec![], steps: 0, max_len: 1 << 22, step_cap: 50_000_000 }
    }

    fn pop(&mut self) -> Result<RV, StepErr> {
        self.stack.pop().ok_or(StepErr::Fail)
    }
    fn pop_int(&mut self) -> Result<BigUint, StepErr> {
        match self.pop()? {
            RV::Int(i) => Ok(i),
            _ => Err(StepErr::Fail),
        }
    }
    fn as_int(v: RV) -> Result<BigUint, StepErr> {
        match v {
            RV::Int(i) => Ok(i),
            _ => Err(StepErr::Fail),
        }
    }
    fn as_u16(v: RV) -> Result<usize, StepErr> {
        let i = Self::as_int(v)?;
        if i > BigUint::from(65535u32) {
            Err(StepErr::Fail)
        } else {
            Ok(i.to_u32_digits().first().copied().unwrap_or(0) as usize)
        }
    }
    fn as_bytes(v: RV) -> Result<Vec<u8>, StepErr> {
        match v {
            RV::Bytes(b) => Ok(b),
            _ => Err(StepErr::Fail),
        }
    }
    fn as_vec(v: RV) -> Result<Vec<RV>, StepErr> {
        match v {
            RV::Vector(b) => Ok(b),
            _ => Err(StepErr::Fail),
        }
    }
    fn low8(i: &BigUint) -> u8 {
        i.to_bytes_le()[0]
    }

    pub fn step(&mut self) -> Result<(), StepErr> {
        let op = self.ops.get(self.pc).ok_or(StepErr::Fail)?.clone();
        let mut next = self.pc + 1;
        let m = two256();
        match op {
            Op::Noop => {}
            Op::Add => {
                let x = self.pop_int()?;
                let y = self.pop_int()?;
                self.stack.push(RV::Int((x + y) % &m));
            }
            Op::Sub => {
                let x = self.pop_int()?;
                let y = self.pop_int()?;
                self.stack.push(RV::Int((x + &m - y) % &m));
            }
            Op::Mul => {
                let x = self.pop_int()?;
                let y = self.pop_int()?;
                self.stack.push(RV::Int((x * y) % &m));
            }
            Op::Div => {
                let x = self.pop_int()?;
                let y = self.pop_int()?;
                if y.is_zero() {
                    return Err(StepErr::Fail);
                }
                self.stack.push(RV::Int(x / y));
            }
            Op::Rem => {
                let x = self.pop_int()?;
                let y = self.pop_int()?;
                if y.is_zero() {
                    return Err(StepErr::Fail);
                }
                self.stack.push(RV::Int(x % y));
            }
            Op::Exp(k) => {
                let x = self.pop_int()?;
                let y = self.pop_int()?;
                if y.bits() > k as u64 + 1 {
                    return Err(StepErr::Fail);
                }
                self.stack.push(RV::Int(x.modpow(&y, &m)));
            }
            Op::And => {
                let x = self.pop_int()?;
                let y = self.pop_int()?;
                self.stack.push(RV::Int(x & y));
            }
            Op::Or => {
                let x = self.pop_int()?;
                let y = self.pop_int()?;
                self.stack.push(RV::Int(x | y));
            }
            Op::Xor => {
                let x = self.pop_int()?;
                let y = self.pop_int()?;
                self.stack.push(RV::Int(x ^ y));
            }
            Op::Not => {
                let x = self.pop_int()?;
                self.stack.push(RV::Int((&m - BigUint::one()) - x));
            }
            Op::Eql => {
                let x = self.pop()?;
                let y = self.pop()?;
                match (x, y) {
                    (RV::Int(x), RV::Int(y)) => self.stack.push(RV::Int(if x == y { BigUint::one() } else { BigUint::zero() })),
                    _ => return Err(StepErr::Fail),
                }
            }
            Op::Lt => {
                let x = self.pop_int()?;
                let y = self.pop_int()?;
                self.stack.push(RV::Int(if x < y { BigUint::one() } else { BigUint::zero() }));
            }
            Op::Gt => {
                let x = self.pop_int()?;
                let y = self.pop_int()?;
                self.stack.push(RV::Int(if x > y { BigUint::one() } else { BigUint::zero() }));
            }
            Op::Shl => {
                let x = self.pop_int()?;
                let y = self.pop_int()?;
                // the shift amount is itself a 256-bit word; only its position within the word width counts
                // (amount mod 256), see DESIGN 5.6
                let s = y.to_u32_digits().first().copied().unwrap_or(0) % 256;
                self.stack.push(RV::Int((x << s) % &m));
            }
            Op::Shr => {
                let x = self.pop_int()?;
                let y = self.pop_int()?;
                // the shift amount is itself a 256-bit word; only its position within the word width counts
                // (amount mod 256), see DESIGN 5.6
                let s = y.to_u32_digits().first().copied().unwrap_or(0) % 256;
                self.stack.push(RV::Int(x >> s));
            }
            Op::Hash(n) => {
                let x = self.pop()?;
                let b = Self::as_bytes(x)?;
                if b.len() > n as usize {
                    return Err(StepErr::Fail);
                }
                self.stack.push(RV::Bytes(blake3::hash(&b).as_bytes().to_vec()));
            }
            Op::SigEOk(n) => {
                let msg = self.pop()?;
                let pk = self.pop()?;
                let sig = self.pop()?;
                // order of checks follows the specification table: key first, then message, then signature
                let pk = Self::as_bytes(pk)?;
                if pk.len() > 32 {
                    self.stack.push(RV::Int(BigUint::zero()));
                } else if pk.len() < 32 {
                    return Err(StepErr::Fail);
                } else {
                    let msg = Self::as_bytes(msg)?;
                    if msg.len() > n as usize {
                        return Err(StepErr::Fail);
                    }
                    let sig = Self::as_bytes(sig)?;
                    if sig.len() > 64 {
                        self.stack.push(RV::Int(BigUint::zero()));
                    } else {
                        let ok = ed25519_verify(&pk, &msg, &sig);
                        self.stack.push(RV::Int(if ok { BigUint::one() } else { BigUint::zero() }));
                    }
                }
            }
            Op::Store => {
                let a = self.pop()?;
                let a = Self::as_u16(a)?;
                let v = self.pop()?;
                self.heap.insert(a as u16, v);
            }
            Op::Load => {
                let a = self.pop()?;
                let a = Self::as_u16(a)?;
                let v = self.heap.get(&(a as u16)).ok_or(StepErr::Fail)?.clone();
                self.stack.push(v);
            }
            Op::StoreImm(a) => {
                let v = self.pop()?;
                self.heap.insert(a, v);
            }
            Op::LoadImm(a) => {
                let v = self.heap.get(&a).ok_or(StepErr::Fail)?.clone();
                self.stack.push(v);
            }
            Op::VRef => {
                let x = self.pop()?;
                let y = self.pop()?;
                let i = Self::as_u16(y)?;
                let v = Self::as_vec(x)?;
                self.stack.push(v.get(i).ok_or(StepErr::Fail)?.clone());
            }
            Op::VSet => {
                let x = self.pop()?;
                let y = self.pop()?;
                let z = self.pop()?;
                let i = Self::as_u16(y)?;
                let mut v = Self::as_vec(x)?;
                if i >= v.len() {
                    return Err(StepErr::Fail);
                }
                v[i] = z;
                self.stack.push(RV::Vector(v));
            }
            Op::VAppend => {
                let x = self.pop()?;
                let y = self.pop()?;
                let mut a = Self::as_vec(x)?;
                let b = Self::as_vec(y)?;
                if a.len() + b.len() > self.max_len {
                    return Err(StepErr::Ood("length cap"));
                }
                a.extend(b);
                self.stack.push(RV::Vector(a));
            }
            Op::VSlice => {
                let x = self.pop()?;
                let y = self.pop()?;
                let z = self.pop()?;
                let b = Self::as_u16(y)?;
                let e = Self::as_u16(z)?;
                let v = Self::as_vec(x)?;
                if e > v.len() || e < b {
                    self.stack.push(RV::Vector(vec![]));
                } else {
                    self.stack.push(RV::Vector(v[b..e].to_vec()));
                }
            }
            Op::VLength => {
                let x = self.pop()?;
                let v = Self::as_vec(x)?;
                self.stack.push(RV::Int(BigUint::from(v.len())));
            }
            Op::VEmpty => self.stack.push(RV::Vector(vec![])),
            Op::VPush => {
                let x = self.pop()?;
                let y = self.pop()?;
                let mut v = Self::as_vec(x)?;
                v.push(y);
                self.stack.push(RV::Vector(v));
            }
            Op::VCons => {
                let x = self.pop()?;
                let y = self.pop()?;
                let mut v = Self::as_vec(y)?;
                v.insert(0, x);
                self.stack.push(RV::Vector(v));
            }
            Op::BEmpty => self.stack.push(RV::Bytes(vec![])),
            Op::BPush => {
                let x = self.pop()?;
                let y = self.pop()?;
                let mut v = Self::as_bytes(x)?;
                let i = Self::as_int(y)?;
                v.push(Self::low8(&i));
                self.stack.push(RV::Bytes(v));
            }
            Op::BCons => {
                let x = self.pop()?;
                let y = self.pop()?;
                let mut v = Self::as_bytes(y)?;
                let i = Self::as_int(x)?;
                v.insert(0, Self::low8(&i));
                self.stack.push(RV::Bytes(v));
            }
            Op::BRef => {
                let x = self.pop()?;
                let y = self.pop()?;
                let i = Self::as_u16(y)?;
                let v = Self::as_bytes(x)?;
                self.stack.push(RV::Int(BigUint::from(*v.get(i).ok_or(StepErr::Fail)?)));
            }
            Op::BSet => {
                let x = self.pop()?;
                let y = self.pop()?;
                let z = self.pop()?;
                let i = Self::as_u16(y)?;
                let mut v = Self::as_bytes(x)?;
                if i >= v.len() {
                    return Err(StepErr::Fail);
                }
                let b = Self::as_int(z)?;
                v[i] = Self::low8(&b);
                self.stack.push(RV::Bytes(v));
            }
            Op::BAppend => {
                let x = self.pop()?;
                let y = self.pop()?;
                let mut a = Self::as_bytes(x)?;
                let b = Self::as_bytes(y)?;
                if a.len() + b.len() > self.max_len {
                    return Err(StepErr::Ood("length cap"));
                }
                a.extend(b);
                self.stack.push(RV::Bytes(a));
            }
            Op::BSlice => {
                let x = self.pop()?;
                let y = self.pop()?;
                let z = self.pop()?;
                let b = Self::as_u16(y)?;
                let e = Self::as_u16(z)?;
                let v = Self::as_bytes(x)?;
                if e > v.len() || e < b {
                    self.stack.push(RV::Bytes(vec![]));
                } else {
                    self.stack.push(RV::Bytes(v[b..e].to_vec()));
                }
            }
            Op::BLength => {
                let x = self.pop()?;
                let v = Self::as_bytes(x)?;
                self.stack.push(RV::Int(BigUint::from(v.len())));
            }
            Op::Bez(j) => {
                let x = self.pop()?;
                if !truthy(&x) {
                    next = self.pc + 1 + j as usize;
                }
            }
            Op::Bnz(j) => {
                let x = self.pop()?;
                if truthy(&x) {
                    next = self.pc + 1 + j as usize;
                }
            }
            Op::Jmp(j) => {
                next = self.pc + 1 + j as usize;
            }
            Op::Loop(n, c) => {
                if n == 0 {
                    next = self.pc + 1 + c as usize;
                } else {
                    if c == 0 {
                        return Err(StepErr::Ood("empty loop body"));
                    }
                    let first = self.pc + 1;
                    let last = self.pc + c as usize;
                    if last >= self.ops.len() {
                        return Err(StepErr::Ood("loop body past end of program"));
                    }
                    if let Some((_, alast, _)) = self.loops.last() {
                        if last > *alast {
                            return Err(StepErr::Fail);
                        }
                    }
                    self.loops.push((first, last, n as u32 - 1));
                }
            }
            Op::ItoB => {
                let x = self.pop_int()?;
                self.stack.push(RV::Bytes(int_to_be(&x).to_vec()));
            }
            Op::BtoI => {
                let x = self.pop()?;
                let b = Self::as_bytes(x)?;
                if b.len() != 32 {
                    return Err(StepErr::Fail);
                }
                self.stack.push(RV::Int(BigUint::from_bytes_be(&b)));
            }
            Op::TypeQ => {
                let x = self.pop()?;
                let t = match x {
                    RV::Int(_) => 0u32,
                    RV::Bytes(_) => 1,
                    RV::Vector(_) => 2,
                };
                self.stack.push(RV::Int(BigUint::from(t)));
            }
            Op::PushB(b) => self.stack.push(RV::Bytes(b)),
            Op::PushI(a) | Op::PushIC(a) => self.stack.push(RV::Int(int_from_be(&a))),
            Op::Dup => {
                let x = self.pop()?;
                self.stack.push(x.clone());
                self.stack.push(x);
            }
        }
        // loop bookkeeping, innermost first
        self.pc = next;
        while let Some((first, last, left)) = self.loops.last().copied() {
            if self.pc >= first && self.pc <= last {
                break; // still inside the body
            }
            self.loops.pop();
            if self.pc == last + 1 && left > 0 {
                self.pc = first;
                self.loops.push((first, last, left - 1));
                break;
            }
            // finished (or jumped out): look at the enclosing loop
        }
        Ok(())
    }

    pub fn run(&mut self) -> Outcome {
        while self.pc < self.ops.len() {
            if self.steps >= self.step_cap {
                return Outcome::OutOfDomain("step cap");
            }
            self.steps += 1;
            match self.step() {
                Ok(()) => {}
                Err(StepErr::Fail) => return Outcome::Fail,
                Err(StepErr::Ood(w)) => return Outcome::OutOfDomain(w),
            }
        }
        match self.stack.pop() {
            Some(v) => Outcome::Value(v),
            None => Outcome::Fail,
        }
    }
}

pub fn ed25519_verify(pk: &[u8], msg: &[u8], sig: &[u8]) -> bool {
    use ed25519_consensus::{Signature, VerificationKey};
    if sig.len() != 64 || pk.len() != 32 {
        return false;
    }
    let mut s = [0u8; 64];
    s.copy_from_slice(sig);
    let mut p = [0u8; 32];
    p.copy_from_slice(pk);
    match VerificationKey::try_from(p) {
        Ok(vk) => vk.verify(&Signature::from(s), msg).is_ok(),
        Err(_) => false,
    }
}

pub fn run(ops: &[Op], heap: HashMap<u16, RV>) -> (Outcome, u64) {
    let mut vm = RefVm::new(ops, heap);
    let o = vm.run();
    (o, vm.steps)
}

pub fn outcome_truthy(o: &Outcome) -> Option<bool> {
    match o {
        Outcome::Fail => Some(false),
        Outcome::Value(v) => Some(truthy(v)),
        Outcome::OutOfDomain(_) => None,
    }
}
