//! Reference side of ERG minting: the two MelPoW hash functions written from TIP-910's
//! description, proof verification through melpow with those, and the reward bound.
use melpow::{HashFunction, Proof, SVec};
use melstructs::{CoinDataHeight, CoinID, Header, Transaction};
use num::bigint::BigUint;

use crate::guard::guarded;
use crate::refmath::{dosc_to_erg, reward_real};

pub struct LegacyH;
impl HashFunction for LegacyH {
    fn hash(&self, b: &[u8], k: &[u8]) -> SVec<u8> {
        let key = blake3::hash(k);
        SVec::from_slice(blake3::keyed_hash(key.as_bytes(), b).as_bytes())
    }
}
pub struct Tip910H;
impl HashFunction for Tip910H {
    fn hash(&self, b: &[u8], k: &[u8]) -> SVec<u8> {
        let key = blake3::hash(k);
        let mut h = blake3::keyed_hash(key.as_bytes(), b);
        for _ in 0..99 {
            h = blake3::hash(h.as_bytes());
        }
        SVec::from_slice(h.as_bytes())
    }
}

/// Some(is_tip910) when the proof verifies under one of the two hashes (a verifier panic counts as "does not verify").
pub fn ref_verify(proof_bytes: &[u8], puzzle: &[u8], difficulty: u32) -> Option<bool> {
    let p = Proof::from_bytes(proof_bytes)?;
    let d = difficulty as usize;
    let p1 = p.clone();
    let pz = puzzle.to_vec();
    if guarded(move || p1.verify(&pz, d, LegacyH)).unwrap_or(false) {
        return Some(false);
    }
    let pz = puzzle.to_vec();
    if guarded(move || p.verify(&pz, d, Tip910H)).unwrap_or(false) {
        Some(true)
    } else {
        None
    }
}

pub fn puzzle_of(hd: &Header, id: &CoinID) -> [u8; 32] {
    tmelcrypt::hash_keyed(hd.hash(), &stdcode::serialize(id).unwrap()).0
}

/// For a DoscMint transaction spending `cdh` (its first input) at `apply_height`: Some((speed, reward in micro-ERG))
/// when the data decodes and the proof verifies for the puzzle of (header at the coin's creation height, coin id).
pub fn ref_mint(tx: &Transaction, cdh: &CoinDataHeight, header_at_coin_height: &Header, prev_speed: u128, apply_height: u64) -> Option<(u128, BigUint)> {
    let (d, pb): (u32, Vec<u8>) = stdcode::deserialize(&tx.data).ok()?;
    let id = tx.inputs.first()?;
    let is910 = ref_verify(&pb, &puzzle_of(header_at_coin_height, id), d)?;
    let age = apply_height.checked_sub(cdh.height.0)?;
    if age == 0 {
        return None;
    }
    let work: u128 = (1u128 << d.min(100)) * if is910 { 100 } else { 1 };
    let speed = work / age as u128;
    let real = reward_real(speed, prev_speed, d, is910);
    Some((speed, dosc_to_erg(apply_height, &real)))
}

// ---------------------------------------------------------------------------------------------------------------
// A proof nobody worked for (finding F23).
//
// MelPoW is Cohen-Pietrzak's proof of sequential work: label every node of a depth-d graph (2^d sequential hashes),
// commit to the labelling with the root label, and open the 200 challenged leaves together with the siblings on
// their paths. melpow 0.1.2's verifier (a) derives the 200 challenged leaves from the puzzle alone, so a prover knows
// them before labelling anything, and (b) recomputes the path to the root for every challenge but then compares the
// committed root with *itself*, so the openings are never tied to the commitment. What is left is: "every challenged
// leaf's label is the hash of the labels the proof lists for its parents" - which holds for labels made up on the
// spot. `forge` writes such a proof with one hash per challenged leaf. It is written from the paper and the wire
// format (8 bytes node id = length << 56 | path bits, 32 bytes label), not by calling into melpow.
pub struct Forged {
    pub bytes: Vec<u8>,
    /// evaluations of the MelPoW hash function spent (an honest prover spends 2^difficulty, one after the other)
    pub hash_calls: u64,
}

fn node_id(bv: u64, len: usize) -> [u8; 8] {
    (((len as u64) << 56) | bv).to_be_bytes()
}

pub fn forge(puzzle: &[u8], d: usize, tip910: bool) -> Forged {
    assert!((1..=56).contains(&d));
    let h = |acc: &[u8], key: &[u8]| -> [u8; 32] {
        let v = if tip910 { Tip910H.hash(acc, key) } else { LegacyH.hash(acc, key) };
        let mut o = [0u8; 32];
        o.copy_from_slice(&v);
        o
    };
    let chi = tmelcrypt::hash_keyed(b"chi", puzzle).0;
    let mask = |n: usize| -> u64 { (1u64 << n) - 1 };
    // the challenged leaves
    let mut gammas: Vec<u64> = (0..200)
        .map(|i| {
            let seed = tmelcrypt::hash_keyed(format!("gamma-{}", i).as_bytes(), puzzle).0;
            let g = u64::from_le_bytes(seed[0..8].try_into().unwrap());
            let shift = 64 - d;
            ((g >> shift) << shift).reverse_bits()
        })
        .collect();
    // left to right: a leaf's parents lie to its left
    gammas.sort_by_key(|bv| bv.reverse_bits() >> (64 - d));
    gammas.dedup();
    let mut labels: std::collections::HashMap<(u64, usize), [u8; 32]> = Default::default();
    let filler = |bv: u64, len: usize| *blake3::hash(&[&b"made up"[..], &node_id(bv, len)].concat()).as_bytes();
    labels.insert((0, 0), filler(0, 0));
    for g in &gammas {
        for idx in 0..d {
            let bit = (g >> idx) & 1;
            let sib = ((g & mask(idx)) | ((1 - bit) << idx), idx + 1);
            labels.entry(sib).or_insert_with(|| filler(sib.0, sib.1));
        }
    }
    let mut calls = 0;
    for g in &gammas {
        let mut acc = vec![];
        let mut add = |b: &[u8]| {
            acc.extend_from_slice(&(b.len() as u64).to_be_bytes());
            acc.extend_from_slice(b);
        };
        add(&node_id(*g, d));
        for idx in 0..d {
            if (g >> idx) & 1 == 1 {
                let parent = (g & mask(idx), idx + 1);
                let l = labels[&parent];
                add(&l);
            }
        }
        labels.insert((*g, d), h(&acc, &chi));
        calls += 1;
    }
    let mut bytes = Vec::with_capacity(labels.len() * 40);
    let mut keys: Vec<_> = labels.keys().copied().collect();
    keys.sort();
    for k in keys {
        bytes.extend_from_slice(&node_id(k.0, k.1));
        bytes.extend_from_slice(&labels[&k]);
    }
    Forged { bytes, hash_calls: calls }
}

/// The labels the work graph really has at the nodes an honest proof lists (2^d hashes: small d only), as wire units.
pub fn honest_units(puzzle: &[u8], d: usize, tip910: bool) -> std::collections::HashMap<[u8; 8], [u8; 32]> {
    let b = if tip910 { Proof::generate(puzzle, d, Tip910H).to_bytes() } else { Proof::generate(puzzle, d, LegacyH).to_bytes() };
    b.chunks(40)
        .map(|u| {
            let mut k = [0u8; 8];
            k.copy_from_slice(&u[..8]);
            let mut l = [0u8; 32];
            l.copy_from_slice(&u[8..]);
            (k, l)
        })
        .collect()
}
