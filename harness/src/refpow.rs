//! Reference side of ERG minting: the two MelPoW hash functions written from TIP-910's
//! description, proof verification through melpow with those, and the reward bound.
use melpow::{HashFunction, Proof, SVec};
use melstructs::{CoinDataHeight, CoinID, Header, Transaction};
use num::bigint::BigUint;

use crate::guard::guarded;
use crate::refmath::{dosc_to_erg, reward_real};

pub struct LegacyH;
impl HashFunction for LegacyH {
    fn hash(&self, b: &[u8], k: &[u8]) -> SVec<u8> {
        let key = blake3::hash(k);
        SVec::from_slice(blake3::keyed_hash(key.as_bytes(), b).as_bytes())
    }
}
pub struct Tip910H;
impl HashFunction for Tip910H {
    fn hash(&self, b: &[u8], k: &[u8]) -> SVec<u8> {
        let key = blake3::hash(k);
        let mut h = blake3::keyed_hash(key.as_bytes(), b);
        for _ in 0..99 {
            h = blake3::hash(h.as_bytes());
        }
        SVec::from_slice(h.as_bytes())
    }
}

/// Some(is_tip910) when the proof verifies under one of the two hashes (a verifier panic counts as "does not verify").
pub fn ref_verify(proof_bytes: &[u8], puzzle: &[u8], difficulty: u32) -> Option<bool> {
    let p = Proof::from_bytes(proof_bytes)?;
    let d = difficulty as usize;
    let p1 = p.clone();
    let pz = puzzle.to_vec();
    if guarded(move || p1.verify(&pz, d, LegacyH)).unwrap_or(false) {
        return Some(false);
    }
    let pz = puzzle.to_vec();
    if guarded(move || p.verify(&pz, d, Tip910H)).unwrap_or(false) {
        Some(true)
    } else {
        None
    }
}

pub fn puzzle_of(hd: &Header, id: &CoinID) -> [u8; 32] {
    tmelcrypt::hash_keyed(hd.hash(), &stdcode::serialize(id).unwrap()).0
}

/// For a DoscMint transaction spending `cdh` (its first input) at `apply_height`: Some((speed, reward in micro-ERG))
/// when the data decodes and the proof verifies for the puzzle of (header at the coin's creation height, coin id).
pub fn ref_mint(tx: &Transaction, cdh: &CoinDataHeight, header_at_coin_height: &Header, prev_speed: u128, apply_height: u64) -> Option<(u128, BigUint)> {
    let (d, pb): (u32, Vec<u8>) = stdcode::deserialize(&tx.data).ok()?;
    let id = tx.inputs.first()?;
    let is910 = ref_verify(&pb, &puzzle_of(header_at_coin_height, id), d)?;
    let age = apply_height.checked_sub(cdh.height.0)?;
    if age == 0 {
        return None;
    }
    let work: u128 = (1u128 << d.min(100)) * if is910 { 100 } else { 1 };
    let speed = work / age as u128;
    let real = reward_real(speed, prev_speed, d, is910);
    Some((speed, dosc_to_erg(apply_height, &real)))
}
