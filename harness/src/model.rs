//! Reference models over plain data: transaction weight and minimum fee, MelVM environment
//! heap, covenant authorisation, batch validity (necessary conditions) and the UTXO transition.
use std::collections::{BTreeMap, HashMap, HashSet};

use melstructs::{
    Address, CoinData, CoinDataHeight, CoinID, Denom, Header, NetID, StakeDoc, Transaction, TxHash,
    TxKind,
};
use num::bigint::BigUint;
use stdcode::StdcodeSerializeExt;

use crate::refvm::{self, Outcome, RV};
use crate::world::*;

// ---------------------------------------------------------------------------------------------
// weight / fee

pub fn ref_covenant_weight(b: &[u8]) -> u128 {
    match refvm::decode(b) {
        Some(ops) => refvm::weight(&ops),
        None => 0,
    }
}

/// weight = serialized size + covenant weights + 1000 per output - 1000 per input, never below 0.
pub fn ref_tx_weight(tx: &Transaction) -> BigUint {
    let raw = BigUint::from(tx.stdcode().len());
    let mut w = raw;
    for c in &tx.covenants {
        w += BigUint::from(ref_covenant_weight(c));
    }
    w += BigUint::from(tx.outputs.len() as u64 * 1000);
    let boon = BigUint::from(tx.inputs.len() as u64 * 1000);
    if w > boon {
        w - boon
    } else {
        BigUint::from(0u32)
    }
}

/// floor(weight * multiplier / 65536), exact.
pub fn ref_min_fee(tx: &Transaction, multiplier: u128) -> BigUint {
    (ref_tx_weight(tx) * BigUint::from(multiplier)) >> 16
}

pub fn big_to_u128_sat(b: &BigUint) -> u128 {
    let d = b.to_u64_digits();
    if d.len() > 2 {
        u128::MAX
    } else {
        let lo = d.first().copied().unwrap_or(0) as u128;
        let hi = d.get(1).copied().unwrap_or(0) as u128;
        (hi << 64) | lo
    }
}

// ---------------------------------------------------------------------------------------------
// MelVM environment heap (Appendix A)

fn rv_int(n: u128) -> RV {
    RV::Int(BigUint::from(n))
}
fn rv_bytes(b: &[u8]) -> RV {
    RV::Bytes(b.to_vec())
}
pub fn denom_bytes(d: &Denom) -> Vec<u8> {
    match d {
        Denom::Mel => b"m".to_vec(),
        Denom::Sym => b"s".to_vec(),
        Denom::Erg => b"d".to_vec(),
        Denom::NewCustom => vec![],
        Denom::Custom(h) => h.0 .0.to_vec(),
    }
}
fn rv_coindata(c: &CoinData) -> RV {
    RV::Vector(vec![
        rv_bytes(&c.covhash.0 .0),
        rv_int(c.value.0),
        rv_bytes(&denom_bytes(&c.denom)),
        rv_bytes(&c.additional_data),
    ])
}
pub fn rv_tx(tx: &Transaction) -> RV {
    RV::Vector(vec![
        rv_int(u8::from(tx.kind) as u128),
        RV::Vector(
            tx.inputs
                .iter()
                .map(|i| RV::Vector(vec![rv_bytes(&i.txhash.0 .0), rv_int(i.index as u128)]))
                .collect(),
        ),
        RV::Vector(tx.outputs.iter().map(rv_coindata).collect()),
        rv_int(tx.fee.0),
        RV::Vector(tx.covenants.iter().map(|c| rv_bytes(c)).collect()),
        rv_bytes(&tx.data),
        RV::Vector(tx.sigs.iter().map(|c| rv_bytes(c)).collect()),
    ])
}
pub fn rv_header(h: &Header) -> RV {
    RV::Vector(vec![
        rv_int(h.network as u8 as u128),
        rv_bytes(&h.previous.0),
        rv_int(h.height.0 as u128),
        rv_bytes(&h.history_hash.0),
        rv_bytes(&h.coins_hash.0),
        rv_bytes(&h.transactions_hash.0),
        rv_int(h.fee_pool.0),
        rv_int(h.fee_multiplier),
        rv_int(h.dosc_speed),
        rv_bytes(&h.pools_hash.0),
        rv_bytes(&h.stakes_hash.0),
    ])
}

pub struct RefEnv<'a> {
    pub coin_id: &'a CoinID,
    pub cdh: &'a CoinDataHeight,
    pub spender_index: u8,
    pub last_header: &'a Header,
}

pub fn ref_heap(tx: &Transaction, env: Option<&RefEnv>) -> HashMap<u16, RV> {
    let mut h = HashMap::new();
    h.insert(0, rv_tx(tx));
    h.insert(1, rv_bytes(&tx.hash_nosigs().0 .0));
    if let Some(e) = env {
        h.insert(2, rv_bytes(&e.coin_id.txhash.0 .0));
        h.insert(3, rv_int(e.coin_id.index as u128));
        h.insert(4, rv_bytes(&e.cdh.coin_data.covhash.0 .0));
        h.insert(5, rv_int(e.cdh.coin_data.value.0));
        h.insert(6, rv_bytes(&denom_bytes(&e.cdh.coin_data.denom)));
        h.insert(7, rv_bytes(&e.cdh.coin_data.additional_data));
        h.insert(8, rv_int(e.cdh.height.0 as u128));
        h.insert(9, rv_int(e.spender_index as u128));
        h.insert(10, rv_header(e.last_header));
    }
    h
}

/// Reference verdict on whether input `idx` of `tx` is authorised. `None` = the covenant left
/// the domain in which the reference is defined (no claim).
pub fn ref_authorised(tx: &Transaction, idx: usize, coin_id: &CoinID, cdh: &CoinDataHeight, last_header: &Header) -> Option<bool> {
    let want = cdh.coin_data.covhash;
    let cov = tx.covenants.iter().find(|c| addr_of(c) == want);
    let cov = match cov {
        None => return Some(false),
        Some(c) => c,
    };
    let ops = match refvm::decode(cov) {
        None => return Some(false),
        Some(o) => o,
    };
    let env = RefEnv { coin_id, cdh, spender_index: idx as u8, last_header };
    let heap = ref_heap(tx, Some(&env));
    let (out, _) = refvm::run(&ops, heap);
    refvm::outcome_truthy(&out)
}

// ---------------------------------------------------------------------------------------------
// batch validity (necessary conditions) and UTXO transition

#[derive(Clone, Debug, PartialEq, Eq)]
pub enum Why {
    Malformed,
    MissingInput,
    RepeatedInput,
    CreatesValue(String),
    Unbalanced(String),
    Unauthorised(usize),
    Locked,
    FeeTooLow,
    MainnetFaucet,
    DuplicateFaucet,
    BadStake,
}

pub struct BatchCtx<'a> {
    pub net: NetID,
    pub height: u64,
    pub fee_multiplier: u128,
    pub last_header: &'a Header,
    /// coins of the prior state the batch refers to (looked up by id)
    pub prior: &'a dyn Fn(&CoinID) -> Option<CoinDataHeight>,
    /// stakes registered before the batch
    pub stakes: &'a HashMap<TxHash, StakeDoc>,
    /// whether prior state holds the dedup marker of that faucet hash
    pub has_marker: &'a dyn Fn(&TxHash) -> bool,
}

pub fn outputs_of(tx: &Transaction, height: u64) -> Vec<(CoinID, CoinDataHeight)> {
    let h = tx.hash_nosigs();
    tx.outputs
        .iter()
        .enumerate()
        .filter(|(_, o)| o.covhash != Address(tmelcrypt::HashVal([0u8; 32])))
        .map(|(i, o)| {
            let mut o = o.clone();
            if o.denom == Denom::NewCustom {
                o.denom = Denom::Custom(h);
            }
            (CoinID { txhash: h, index: i as u8 }, CoinDataHeight { coin_data: o, height: melstructs::BlockHeight(height) })
        })
        .collect()
}

pub fn stake_doc_of(tx: &Transaction) -> Option<StakeDoc> {
    stdcode::deserialize::<StakeDoc>(&tx.data).ok()
}

/// Would this stake transaction register a stake (reference rule of C13)?
pub fn stake_registers(tx: &Transaction, height: u64) -> Option<StakeDoc> {
    let doc = stake_doc_of(tx)?;
    let first = tx.outputs.first()?;
    let epoch = height / STAKE_EPOCH;
    if first.denom == Denom::Sym && first.value == doc.syms_staked && doc.e_start > epoch && doc.e_post_end > doc.e_start {
        Some(doc)
    } else {
        None
    }
}

/// Checks the necessary conditions for acceptance that the property statements name. Returns the
/// first reason found why the batch *must* be rejected; `Ok(n_no_claim)` when no reason was found
/// (n_no_claim = inputs whose covenant left the reference's domain).
pub fn ref_batch_must_reject(txs: &[Transaction], cx: &BatchCtx, check_covenants: bool) -> Result<usize, Why> {
    let mut created: HashMap<CoinID, CoinDataHeight> = HashMap::new();
    for tx in txs {
        if tx.outputs.len() > 255 || tx.fee.0 > MAX_COINVAL || tx.outputs.iter().any(|o| o.value.0 > MAX_COINVAL) {
            return Err(Why::Malformed);
        }
        for (id, c) in outputs_of(tx, cx.height) {
            created.insert(id, c);
        }
    }
    let mut seen: HashSet<CoinID> = HashSet::new();
    for tx in txs {
        for i in &tx.inputs {
            if !seen.insert(*i) {
                return Err(Why::RepeatedInput);
            }
        }
    }
    // stakes registered by this batch (outside the legacy window)
    let legacy_accept = legacy_net(cx.net) && cx.height < LEGACY_STAKE_ACCEPT_BELOW;
    let legacy_lock = legacy_net(cx.net) && cx.height < LEGACY_STAKE_LOCK_BELOW;
    let mut new_stakes: HashSet<TxHash> = HashSet::new();
    for tx in txs {
        if tx.kind == TxKind::Stake && !legacy_accept {
            if stake_doc_of(tx).is_none() {
                return Err(Why::BadStake);
            }
            match tx.outputs.first() {
                Some(o) if o.denom == Denom::Sym => {}
                _ => return Err(Why::BadStake),
            }
            if stake_registers(tx, cx.height).is_some() {
                new_stakes.insert(tx.hash_nosigs());
            }
        }
    }
    let mut no_claim = 0usize;
    let mut faucets_seen: HashSet<TxHash> = HashSet::new();
    for tx in txs {
        let txhash = tx.hash_nosigs();
        if tx.kind == TxKind::Faucet {
            let grandfathered = hex::encode(txhash.0 .0) == GRANDFATHERED_FAUCET;
            if cx.net == NetID::Mainnet && !grandfathered {
                return Err(Why::MainnetFaucet);
            }
            if !(grandfathered && cx.net == NetID::Mainnet) {
                if (cx.has_marker)(&txhash) || !faucets_seen.insert(txhash) {
                    return Err(Why::DuplicateFaucet);
                }
            }
        }
        let mut in_tot: BTreeMap<Vec<u8>, BigUint> = BTreeMap::new();
        for (idx, i) in tx.inputs.iter().enumerate() {
            let cdh = match created.get(i).cloned().or_else(|| (cx.prior)(i)) {
                Some(c) => c,
                None => return Err(Why::MissingInput),
            };
            // the staked coin is output 0 of the stake transaction; whether its other outputs are locked too is left open by
            // the statements (DESIGN 5.13), so only a spend of output 0 is something the reference insists on refusing
            if !legacy_lock && i.index == 0 && (new_stakes.contains(&i.txhash) || cx.stakes.contains_key(&i.txhash)) {
                return Err(Why::Locked);
            }
            if check_covenants {
                match ref_authorised(tx, idx, i, &cdh, cx.last_header) {
                    Some(true) => {}
                    Some(false) => return Err(Why::Unauthorised(idx)),
                    None => no_claim += 1,
                }
            }
            *in_tot.entry(denom_bytes(&cdh.coin_data.denom)).or_default() += BigUint::from(cdh.coin_data.value.0);
        }
        if tx.kind != TxKind::Faucet {
            let mut out_tot: BTreeMap<Vec<u8>, BigUint> = BTreeMap::new();
            for o in &tx.outputs {
                if o.denom == Denom::NewCustom {
                    continue;
                }
                if tx.kind == TxKind::DoscMint && o.denom == Denom::Erg {
                    continue;
                }
                *out_tot.entry(denom_bytes(&o.denom)).or_default() += BigUint::from(o.value.0);
            }
            *out_tot.entry(b"m".to_vec()).or_default() += BigUint::from(tx.fee.0);
            for (d, v) in out_tot.iter() {
                let zero = BigUint::from(0u32);
                let iv = in_tot.get(d).unwrap_or(&zero);
                if v > iv {
                    return Err(Why::CreatesValue(hex::encode(d)));
                }
                if v < iv {
                    return Err(Why::Unbalanced(hex::encode(d)));
                }
            }
        }
        if BigUint::from(tx.fee.0) < ref_min_fee(tx, cx.fee_multiplier) {
            return Err(Why::FeeTooLow);
        }
    }
    Ok(no_claim)
}

/// Expected coin entries after an accepted batch, keyed like the coin tree (hash of the id).
/// Returns (removed keys, inserted key -> CoinDataHeight).
pub fn ref_transition(txs: &[Transaction], net: NetID, height: u64) -> (HashSet<[u8; 32]>, BTreeMap<[u8; 32], CoinDataHeight>) {
    let mut removed = HashSet::new();
    let mut inserted = BTreeMap::new();
    for tx in txs {
        for (id, c) in outputs_of(tx, height) {
            inserted.insert(coin_key(&id), c);
        }
        if tx.kind == TxKind::Faucet {
            let h = tx.hash_nosigs();
            let grandfathered = hex::encode(h.0 .0) == GRANDFATHERED_FAUCET;
            if !(grandfathered && net == NetID::Mainnet) {
                inserted.insert(coin_key(&faucet_marker(h)), marker_cdh());
            }
        }
    }
    for tx in txs {
        for i in &tx.inputs {
            let k = coin_key(i);
            inserted.remove(&k);
            removed.insert(k);
        }
    }
    (removed, inserted)
}
