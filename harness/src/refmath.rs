//! Exact-arithmetic references: supply vectors, DOSC inflator, peg target, TIP-909 schedule,
//! MelPoW reward, integer square roots. Big integers throughout; no call into melstf.
use std::collections::BTreeMap;
use std::sync::Mutex;

use melstructs::{Denom, NetID, PoolState};
use num::bigint::{BigInt, BigUint};
use num::integer::Roots;
use num::{One, Zero};

use crate::gen::World;
use crate::world::*;

pub type Supply = BTreeMap<Denom, BigInt>;

/// Supply of every denomination visible in a view: coins + pool reserves attributed to the
/// canonical denominations of the pool's storage slot (+ fee pool and tips for MEL).
/// Returns the supply and the number of pool slots whose name the generator does not know.
pub fn supply_of(w: &World, v: &View) -> (Supply, usize) {
    let mut s: Supply = BTreeMap::new();
    for (_, c) in v.coin_entries() {
        *s.entry(c.coin_data.denom).or_default() += BigInt::from(c.coin_data.value.0);
    }
    let mut unknown = 0;
    for (k, p) in v.pool_entries() {
        match w.pool_slots.get(k).and_then(|b| slot_denoms(b)) {
            Some((l, r)) => {
                *s.entry(l).or_default() += BigInt::from(p.lefts);
                *s.entry(r).or_default() += BigInt::from(p.rights);
            }
            None => unknown += 1,
        }
    }
    *s.entry(Denom::Mel).or_default() += BigInt::from(v.snap.fee_pool) + BigInt::from(v.snap.tips);
    (s, unknown)
}

/// Sum of coins only, per denomination.
pub fn coin_sums(v: &View) -> Supply {
    let mut s: Supply = BTreeMap::new();
    for (_, c) in v.coin_entries() {
        *s.entry(c.coin_data.denom).or_default() += BigInt::from(c.coin_data.value.0);
    }
    s
}

pub fn delta(after: &Supply, before: &Supply) -> Supply {
    let mut d: Supply = BTreeMap::new();
    for (k, v) in after {
        d.insert(*k, v.clone() - before.get(k).cloned().unwrap_or_default());
    }
    for (k, v) in before {
        if !after.contains_key(k) {
            d.insert(*k, -v.clone());
        }
    }
    d
}

/// micro-ERG per DOSC at a height: t(0) = 10^6, t(h) = max(t(h-1)+1, t(h-1) + t(h-1)/2_000_000).
pub fn inflator(height: u64) -> u128 {
    static TAB: Mutex<Vec<u128>> = Mutex::new(Vec::new());
    let mut t = TAB.lock().unwrap();
    if t.is_empty() {
        t.push(1_000_000);
    }
    while t.len() <= height as usize {
        let last = *t.last().unwrap();
        t.push((last + 1).max(last + last / 2_000_000));
    }
    t[height as usize]
}

/// floor(inflator(h) * real / 10^6)
pub fn dosc_to_erg(height: u64, real: &BigUint) -> BigUint {
    (BigUint::from(inflator(height)) * real) / BigUint::from(1_000_000u32)
}

/// floor(work * my_speed * 10^6 / (prev_speed^2 * 2880)); work = 2^difficulty (x100 under TIP-910)
pub fn reward_real(my_speed: u128, prev_speed: u128, difficulty: u32, tip910: bool) -> BigUint {
    let mut work = BigUint::one() << difficulty;
    if tip910 {
        work *= 100u32;
    }
    let den = BigUint::from(prev_speed) * BigUint::from(prev_speed) * 2880u32;
    if den.is_zero() {
        return BigUint::from(u128::MAX);
    }
    (work * BigUint::from(my_speed) * 1_000_000u32) / den
}

pub fn tip909_reward(height: u64) -> u128 {
    let div = height.saturating_sub(TIP_909) / 1_000_000;
    if div >= 128 {
        0
    } else {
        (1u128 << 20) >> div
    }
}

fn isqrt_big(x: &BigUint) -> BigUint {
    x.sqrt()
}

pub struct PegRef {
    pub desired_mel: BigUint,
    pub desired_sym: BigUint,
    /// upper bounds on what pegging may add to the MEL and SYM supply in this block
    pub max_mel_issue: BigUint,
    pub max_sym_issue: BigUint,
}

/// Reference peg target from the pools as they stand before pegging.
/// x = implied SYM-per-ERG rate (TIP-902: from the ERG/SYM pool; before: (SYM per MEL)/(MEL per ERG)),
/// target rate r = inflator(h)/10^6 * x, k = L*R of the MEL/SYM pool,
/// desired_mel = isqrt(floor(k / r)), desired_sym = isqrt(floor(k * r)); each side is nudged by
/// (desired - reserve)/throttle when desired > reserve, throttle = 200 (TIP-902) or 1000.
pub fn peg_reference(net: NetID, height: u64, ms: &PoolState, me: &PoolState, es: Option<&PoolState>) -> Option<PegRef> {
    let t902 = tip_active(net, height, TIP_902);
    // x = num/den
    let (xn, xd): (BigUint, BigUint) = if t902 {
        let es = es?;
        // ERG/SYM pool: left = ERG, right = SYM; syms per erg = rights/lefts
        (BigUint::from(es.rights), BigUint::from(es.lefts))
    } else {
        // MEL/SYM: left MEL right SYM -> sym per mel = rights/lefts
        // MEL/ERG: left ERG right MEL -> (lefts/rights)^-1 = rights/lefts = mel per erg
        // x = (ms.rights/ms.lefts) / (me.rights/me.lefts)
        (BigUint::from(ms.rights) * BigUint::from(me.lefts), BigUint::from(ms.lefts) * BigUint::from(me.rights))
    };
    if xn.is_zero() || xd.is_zero() {
        return None;
    }
    let infl = BigUint::from(inflator(height));
    let rn = infl * xn;
    let rd = BigUint::from(1_000_000u32) * xd;
    let k = BigUint::from(ms.lefts) * BigUint::from(ms.rights);
    let desired_mel = isqrt_big(&((&k * &rd) / &rn));
    let desired_sym = isqrt_big(&((&k * &rn) / &rd));
    let throttle = BigUint::from(if t902 { 200u32 } else { 1000u32 });
    let lefts = BigUint::from(ms.lefts);
    let rights = BigUint::from(ms.rights);
    let max_mel_issue = if desired_mel > lefts { (&desired_mel - &lefts) / &throttle } else { BigUint::zero() };
    // the SYM nudge is evaluated after the MEL nudge, which lowers the SYM reserve to no less than
    // R*L/(L+delta) (constant product; the fee only leaves more behind)
    let rights_low = if lefts.is_zero() { BigUint::zero() } else { (&rights * &lefts) / (&lefts + &max_mel_issue) };
    let max_sym_issue = if desired_sym > rights_low { (&desired_sym - &rights_low) / &throttle + BigUint::one() } else { BigUint::zero() };
    Some(PegRef { desired_mel, desired_sym, max_mel_issue, max_sym_issue })
}

pub fn isqrt_u128(x: u128) -> u128 {
    x.sqrt()
}

pub fn b(x: u128) -> BigUint {
    BigUint::from(x)
}

pub fn floor_mul_div(x: u128, num: u128, den: u128) -> Option<BigUint> {
    if den == 0 {
        None
    } else {
        Some(b(x) * b(num) / b(den))
    }
}
