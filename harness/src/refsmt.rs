//! Reference Merkle commitments computed from contents alone: the 256-level sparse Merkle root
//! over a key -> value map and the dense Merkle root over a list of leaves. Hashing follows the
//! documented construction (blake3 keyed with blake3("smt_datablock") for leaves, with
//! blake3("smt_node") for inner nodes; empty value and empty subtree hash to 32 zero bytes).
use std::collections::BTreeMap;

pub type H = [u8; 32];

pub fn leaf_hash(v: &[u8]) -> H {
    if v.is_empty() {
        [0u8; 32]
    } else {
        *blake3::keyed_hash(blake3::hash(b"smt_datablock").as_bytes(), v).as_bytes()
    }
}

pub fn node_hash(l: &H, r: &H) -> H {
    if *l == [0u8; 32] && *r == [0u8; 32] {
        return [0u8; 32];
    }
    let mut buf = [0u8; 64];
    buf[..32].copy_from_slice(l);
    buf[32..].copy_from_slice(r);
    *blake3::keyed_hash(blake3::hash(b"smt_node").as_bytes(), &buf).as_bytes()
}

fn bit(k: &H, i: usize) -> bool {
    (k[i / 8] >> (7 - (i % 8))) & 1 == 1
}

fn sub(items: &[(&H, H)], depth: usize) -> H {
    if items.is_empty() {
        return [0u8; 32];
    }
    if depth == 256 {
        return items[0].1;
    }
    if items.len() == 1 {
        // a single leaf: fold it up to this depth
        let (k, mut h) = (items[0].0, items[0].1);
        for d in (depth..256).rev() {
            h = if bit(k, d) { node_hash(&[0u8; 32], &h) } else { node_hash(&h, &[0u8; 32]) };
        }
        return h;
    }
    // items are sorted by key, so the split point is where bit `depth` turns 1
    let split = items.partition_point(|(k, _)| !bit(k, depth));
    let l = sub(&items[..split], depth + 1);
    let r = sub(&items[split..], depth + 1);
    node_hash(&l, &r)
}

/// Root of the sparse Merkle tree holding exactly `contents` (empty values are absent keys).
pub fn sparse_root(contents: &BTreeMap<H, Vec<u8>>) -> H {
    let items: Vec<(&H, H)> = contents.iter().filter(|(_, v)| !v.is_empty()).map(|(k, v)| (k, leaf_hash(v))).collect();
    sub(&items, 0)
}

/// Root of the dense Merkle tree over `leaves` (padded with zero hashes to a power of two).
pub fn dense_root(leaves: &[Vec<u8>]) -> H {
    if leaves.is_empty() {
        // the construction pads 0 leaves to 1 zero leaf
        return [0u8; 32];
    }
    let mut level: Vec<H> = leaves.iter().map(|l| leaf_hash(l)).collect();
    let n = level.len().next_power_of_two();
    level.resize(n, [0u8; 32]);
    while level.len() > 1 {
        level = level.chunks(2).map(|c| node_hash(&c[0], &c[1])).collect();
    }
    level[0]
}

/// Verifies a 256-element sparse proof for (key, value) against root.
pub fn verify_sparse(proof: &[H], root: &H, key: &H, val: &[u8]) -> bool {
    if proof.len() != 256 {
        return false;
    }
    let mut h = leaf_hash(val);
    for d in (0..256).rev() {
        h = if bit(key, d) { node_hash(&proof[d], &h) } else { node_hash(&h, &proof[d]) };
    }
    h == *root
}
