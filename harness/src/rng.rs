//! Deterministic PRNG (xoshiro256** seeded through splitmix64). Everything random in the
//! harness derives from VERIF_SEED through this type.
#[derive(Clone, Debug)]
pub struct Rng {
    s: [u64; 4],
}

fn splitmix(x: &mut u64) -> u64 {
    *x = x.wrapping_add(0x9E3779B97F4A7C15);
    let mut z = *x;
    z = (z ^ (z >> 30)).wrapping_mul(0xBF58476D1CE4E5B9);
    z = (z ^ (z >> 27)).wrapping_mul(0x94D049BB133111EB);
    z ^ (z >> 31)
}

impl Rng {
    pub fn new(seed: u64) -> Self {
        let mut x = seed;
        let s = [splitmix(&mut x), splitmix(&mut x), splitmix(&mut x), splitmix(&mut x)];
        Rng { s }
    }
    /// Derives an independent stream.
    pub fn fork(&mut self, tag: u64) -> Rng {
        Rng::new(self.next() ^ tag.wrapping_mul(0xD1342543DE82EF95))
    }
    pub fn next(&mut self) -> u64 {
        let r = self.s[1].wrapping_mul(5).rotate_left(7).wrapping_mul(9);
        let t = self.s[1] << 17;
        self.s[2] ^= self.s[0];
        self.s[3] ^= self.s[1];
        self.s[1] ^= self.s[2];
        self.s[0] ^= self.s[3];
        self.s[2] ^= t;
        self.s[3] = self.s[3].rotate_left(45);
        r
    }
    pub fn u128(&mut self) -> u128 {
        ((self.next() as u128) << 64) | self.next() as u128
    }
    /// Uniform in 0..n (n > 0).
    pub fn below(&mut self, n: u64) -> u64 {
        assert!(n > 0);
        self.next() % n
    }
    pub fn range(&mut self, lo: u64, hi_incl: u64) -> u64 {
        lo + self.below(hi_incl - lo + 1)
    }
    pub fn usize(&mut self, n: usize) -> usize {
        self.below(n as u64) as usize
    }
    pub fn chance(&mut self, num: u64, den: u64) -> bool {
        self.below(den) < num
    }
    pub fn pick<'a, T>(&mut self, xs: &'a [T]) -> &'a T {
        &xs[self.usize(xs.len())]
    }
    pub fn shuffle<T>(&mut self, xs: &mut [T]) {
        for i in (1..xs.len()).rev() {
            let j = self.usize(i + 1);
            xs.swap(i, j);
        }
    }
    pub fn bytes(&mut self, n: usize) -> Vec<u8> {
        (0..n).map(|_| self.next() as u8).collect()
    }
    pub fn arr32(&mut self) -> [u8; 32] {
        let mut a = [0u8; 32];
        for c in a.chunks_mut(8) {
            c.copy_from_slice(&self.next().to_le_bytes());
        }
        a
    }
    /// A value with a random bit length up to `bits` (log-uniform-ish), never 0 unless bits==0.
    pub fn loguniform(&mut self, bits: u32) -> u128 {
        if bits == 0 {
            return 0;
        }
        let b = self.range(1, bits as u64) as u32;
        let v = self.u128();
        let v = if b >= 128 { v } else { v & ((1u128 << b) - 1) };
        v | (1u128 << (b - 1).min(127))
    }
}

/// FNV-1a 64-bit, used for case fingerprints.
pub fn fnv(data: &[u8]) -> u64 {
    let mut h: u64 = 0xcbf29ce484222325;
    for b in data {
        h ^= *b as u64;
        h = h.wrapping_mul(0x100000001b3);
    }
    h
}
