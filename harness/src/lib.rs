pub mod alloc;
pub mod conv;
pub mod gen;
pub mod guard;
pub mod model;
pub mod mon;
pub mod refmath;
pub mod refpow;
pub mod refsmt;
pub mod refvm;
pub mod report;
pub mod rng;
pub mod world;

/// Parameters of one worker invocation.
#[derive(Clone, Debug)]
pub struct Params {
    pub property: String,
    pub thorough: bool,
    pub seed: u64,
    pub shard: u64,
    pub nshards: u64,
    /// scale factor on the amount of work (1.0 = the tier's default)
    pub scale: f64,
    pub only_case: Option<u64>,
    pub journal: Option<String>,
}

impl Params {
    pub fn n(&self, quick: u64, thorough: u64) -> u64 {
        let base = if self.thorough { thorough } else { quick };
        (((base as f64) * self.scale) as u64).max(1)
    }
    /// Number of cases this shard should run out of a total.
    pub fn share(&self, total: u64) -> u64 {
        let per = total / self.nshards;
        let extra = if self.shard < total % self.nshards { 1 } else { 0 };
        per + extra
    }
    pub fn shard_seed(&self) -> u64 {
        self.seed.wrapping_mul(0x9E3779B97F4A7C15) ^ (self.shard.wrapping_mul(0xD6E8FEB86659FD93)) ^ 0x1234_5678
    }
}
