//! Panic capture: a global hook records message + location; `guarded` wraps a call into the
//! code under test in catch_unwind and returns the recorded panic, if any.
use std::panic::{catch_unwind, AssertUnwindSafe};
use std::sync::Mutex;
use std::sync::Once;

#[derive(Clone, Debug)]
pub struct PanicInfo {
    pub message: String,
    pub location: String,
    /// crate of the innermost stack frame that belongs to the code under test or one of its
    /// dependencies (from the backtrace), e.g. "melstf", "catvec", "num_rational"
    pub origin: String,
}

const CRATES: [&str; 20] = [
    "melstf", "melvm", "tip911_stakeset", "melstructs", "catvec", "novasmt", "melpow", "num_bigint", "num_rational",
    "num_integer", "num_traits", "imbl", "ethnum", "tmelcrypt", "stdcode", "bincode", "dashmap", "rayon_core", "melverif", "ed25519_consensus",
];

fn origin_of(bt: &str) -> String {
    for line in bt.lines() {
        let l = line.trim_start();
        // frame lines look like "12: catvec::btree::Tree<T,_>::len"
        if !l.chars().next().map(|c| c.is_ascii_digit()).unwrap_or(false) {
            continue;
        }
        let mut best: Option<(usize, &str)> = None;
        for c in CRATES.iter() {
            let pat = format!("{}::", c);
            if let Some(pos) = l.find(&pat) {
                // must be at an identifier boundary
                let ok = pos == 0 || !l.as_bytes()[pos - 1].is_ascii_alphanumeric() && l.as_bytes()[pos - 1] != b'_';
                if ok && best.map(|b| pos < b.0).unwrap_or(true) {
                    best = Some((pos, c));
                }
            }
        }
        if let Some((_, c)) = best {
            if c != "melverif" || l.contains("melverif::mon") || l.contains("melverif::gen") {
                return c.to_string();
            }
        }
    }
    "unknown".into()
}

/// An arithmetic-overflow trap raised inside third-party generic code only because it was
/// instantiated in a crate built with overflow checks: production (release) builds wrap instead.
pub fn is_debug_only_dependency_overflow(p: &PanicInfo) -> bool {
    let arith = p.message.starts_with("attempt to ") && (p.message.contains("overflow") || p.message.contains("divide by zero") == false && p.message.contains("with overflow"));
    // only for the crate where this was checked by hand in a production-like build (DESIGN 5.10): the trap inside
    // catvec's length arithmetic beyond 2^64 elements is silent there. A trap anywhere else stays a violation - a
    // wrap in production is not automatically harmless (F21: a wrapped sum of covenant weights made fees vanish)
    arith && p.origin.as_str() == "catvec"
}

static RECORDS: Mutex<Vec<PanicInfo>> = Mutex::new(Vec::new());
static INSTALL: Once = Once::new();

pub fn install() {
    INSTALL.call_once(|| {
        std::panic::set_hook(Box::new(|info| {
            crate::alloc::suspend();
            let msg = if let Some(s) = info.payload().downcast_ref::<&str>() {
                s.to_string()
            } else if let Some(s) = info.payload().downcast_ref::<String>() {
                s.clone()
            } else {
                "<non-string panic>".to_string()
            };
            let loc = info
                .location()
                .map(|l| format!("{}:{}", l.file(), l.line()))
                .unwrap_or_else(|| "<unknown>".into());
            let bt = std::backtrace::Backtrace::force_capture().to_string();
            let origin = origin_of(&bt);
            if let Ok(mut r) = RECORDS.lock() {
                if r.len() > 4096 {
                    r.drain(..2048);
                }
                r.push(PanicInfo { message: msg, location: loc, origin });
            }
        }));
    });
}

fn payload_msg(p: &Box<dyn std::any::Any + Send>) -> String {
    if let Some(s) = p.downcast_ref::<&str>() {
        s.to_string()
    } else if let Some(s) = p.downcast_ref::<String>() {
        s.clone()
    } else {
        "<non-string panic>".to_string()
    }
}

/// Runs `f`; a panic is caught and returned with the location the hook recorded for it.
pub fn guarded<T>(f: impl FnOnce() -> T) -> Result<T, PanicInfo> {
    install();
    match catch_unwind(AssertUnwindSafe(f)) {
        Ok(v) => Ok(v),
        Err(p) => {
            let msg = payload_msg(&p);
            let mut loc = "<unknown>".to_string();
            let mut origin = "unknown".to_string();
            if let Ok(mut r) = RECORDS.lock() {
                if let Some(pos) = r.iter().rposition(|x| x.message == msg) {
                    let rec = r.remove(pos);
                    loc = rec.location;
                    origin = rec.origin;
                }
            }
            Err(PanicInfo { message: msg, location: loc, origin })
        }
    }
}

/// Shortens a source location to something stable: crate-relative file, no line number drift for registry paths.
pub fn site(loc: &str) -> String {
    let l = loc;
    if let Some(i) = l.find("/registry/src/") {
        let rest = &l[i + "/registry/src/".len()..];
        if let Some(j) = rest.find('/') {
            let r = &rest[j + 1..];
            // strip line
            return r.rsplit_once(':').map(|x| x.0).unwrap_or(r).to_string();
        }
    }
    let l = l.strip_prefix("/repo/").unwrap_or(l);
    l.rsplit_once(':').map(|x| x.0).unwrap_or(l).to_string()
}

/// Class of a panic message with volatile numbers removed.
pub fn msg_class(msg: &str) -> String {
    let mut out = String::new();
    let mut last_digit = false;
    for ch in msg.chars().take(90) {
        if ch.is_ascii_digit() {
            if !last_digit {
                out.push('#');
            }
            last_digit = true;
        } else {
            last_digit = false;
            out.push(ch);
        }
    }
    out
}
