//! Panic capture: a global hook records message + location; `guarded` wraps a call into the
//! code under test in catch_unwind and returns the recorded panic, if any.
use std::panic::{catch_unwind, AssertUnwindSafe};
use std::sync::Mutex;
use std::sync::Once;

#[derive(Clone, Debug)]
pub struct PanicInfo {
    pub message: String,
    pub location: String,
}

static RECORDS: Mutex<Vec<PanicInfo>> = Mutex::new(Vec::new());
static INSTALL: Once = Once::new();

pub fn install() {
    INSTALL.call_once(|| {
        std::panic::set_hook(Box::new(|info| {
            let msg = if let Some(s) = info.payload().downcast_ref::<&str>() {
                s.to_string()
            } else if let Some(s) = info.payload().downcast_ref::<String>() {
                s.clone()
            } else {
                "<non-string panic>".to_string()
            };
            let loc = info
                .location()
                .map(|l| format!("{}:{}", l.file(), l.line()))
                .unwrap_or_else(|| "<unknown>".into());
            if let Ok(mut r) = RECORDS.lock() {
                if r.len() > 4096 {
                    r.drain(..2048);
                }
                r.push(PanicInfo { message: msg, location: loc });
            }
        }));
    });
}

fn payload_msg(p: &Box<dyn std::any::Any + Send>) -> String {
    if let Some(s) = p.downcast_ref::<&str>() {
        s.to_string()
    } else if let Some(s) = p.downcast_ref::<String>() {
        s.clone()
    } else {
        "<non-string panic>".to_string()
    }
}

/// Runs `f`; a panic is caught and returned with the location the hook recorded for it.
pub fn guarded<T>(f: impl FnOnce() -> T) -> Result<T, PanicInfo> {
    install();
    match catch_unwind(AssertUnwindSafe(f)) {
        Ok(v) => Ok(v),
        Err(p) => {
            let msg = payload_msg(&p);
            let mut loc = "<unknown>".to_string();
            if let Ok(mut r) = RECORDS.lock() {
                if let Some(pos) = r.iter().rposition(|x| x.message == msg) {
                    loc = r.remove(pos).location;
                }
            }
            Err(PanicInfo { message: msg, location: loc })
        }
    }
}

/// Shortens a source location to something stable: crate-relative file, no line number drift for registry paths.
pub fn site(loc: &str) -> String {
    let l = loc;
    if let Some(i) = l.find("/registry/src/") {
        let rest = &l[i + "/registry/src/".len()..];
        if let Some(j) = rest.find('/') {
            let r = &rest[j + 1..];
            // strip line
            return r.rsplit_once(':').map(|x| x.0).unwrap_or(r).to_string();
        }
    }
    let l = l.strip_prefix("/repo/").unwrap_or(l);
    l.rsplit_once(':').map(|x| x.0).unwrap_or(l).to_string()
}

/// Class of a panic message with volatile numbers removed.
pub fn msg_class(msg: &str) -> String {
    let mut out = String::new();
    let mut last_digit = false;
    for ch in msg.chars().take(90) {
        if ch.is_ascii_digit() {
            if !last_digit {
                out.push('#');
            }
            last_digit = true;
        } else {
            last_digit = false;
            out.push(ch);
        }
    }
    out
}
