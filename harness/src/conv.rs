//! Conversions between melvm's types and the reference model's plain types.
use catvec::CatVec;
use ethnum::U256;
use melvm::opcode::OpCode;
use melvm::Value;
use num::bigint::BigUint;

use crate::refvm::{int_to_be, Op, RV};

pub fn op_from_impl(o: &OpCode) -> Op {
    match o {
        OpCode::Noop => Op::Noop,
        OpCode::Add => Op::Add,
        OpCode::Sub => Op::Sub,
        OpCode::Mul => Op::Mul,
        OpCode::Div => Op::Div,
        OpCode::Rem => Op::Rem,
        OpCode::Exp(k) => Op::Exp(*k),
        OpCode::And => Op::And,
        OpCode::Or => Op::Or,
        OpCode::Xor => Op::Xor,
        OpCode::Not => Op::Not,
        OpCode::Eql => Op::Eql,
        OpCode::Lt => Op::Lt,
        OpCode::Gt => Op::Gt,
        OpCode::Shl => Op::Shl,
        OpCode::Shr => Op::Shr,
        OpCode::Hash(n) => Op::Hash(*n),
        OpCode::SigEOk(n) => Op::SigEOk(*n),
        OpCode::Store => Op::Store,
        OpCode::Load => Op::Load,
        OpCode::StoreImm(n) => Op::StoreImm(*n),
        OpCode::LoadImm(n) => Op::LoadImm(*n),
        OpCode::VRef => Op::VRef,
        OpCode::VAppend => Op::VAppend,
        OpCode::VEmpty => Op::VEmpty,
        OpCode::VLength => Op::VLength,
        OpCode::VSlice => Op::VSlice,
        OpCode::VSet => Op::VSet,
        OpCode::VPush => Op::VPush,
        OpCode::VCons => Op::VCons,
        OpCode::BRef => Op::BRef,
        OpCode::BAppend => Op::BAppend,
        OpCode::BEmpty => Op::BEmpty,
        OpCode::BLength => Op::BLength,
        OpCode::BSlice => Op::BSlice,
        OpCode::BSet => Op::BSet,
        OpCode::BPush => Op::BPush,
        OpCode::BCons => Op::BCons,
        OpCode::Bez(n) => Op::Bez(*n),
        OpCode::Bnz(n) => Op::Bnz(*n),
        OpCode::Jmp(n) => Op::Jmp(*n),
        OpCode::Loop(n, c) => Op::Loop(*n, *c),
        OpCode::ItoB => Op::ItoB,
        OpCode::BtoI => Op::BtoI,
        OpCode::TypeQ => Op::TypeQ,
        OpCode::PushB(b) => Op::PushB(b.clone()),
        OpCode::PushI(i) => Op::PushI(i.to_be_bytes()),
        OpCode::PushIC(i) => Op::PushIC(i.to_be_bytes()),
        OpCode::Dup => Op::Dup,
    }
}

pub fn op_to_impl(o: &Op) -> OpCode {
    match o {
        Op::Noop => OpCode::Noop,
        Op::Add => OpCode::Add,
        Op::Sub => OpCode::Sub,
        Op::Mul => OpCode::Mul,
        Op::Div => OpCode::Div,
        Op::Rem => OpCode::Rem,
        Op::Exp(k) => OpCode::Exp(*k),
        Op::And => OpCode::And,
        Op::Or => OpCode::Or,
        Op::Xor => OpCode::Xor,
        Op::Not => OpCode::Not,
        Op::Eql => OpCode::Eql,
        Op::Lt => OpCode::Lt,
        Op::Gt => OpCode::Gt,
        Op::Shl => OpCode::Shl,
        Op::Shr => OpCode::Shr,
        Op::Hash(n) => OpCode::Hash(*n),
        Op::SigEOk(n) => OpCode::SigEOk(*n),
        Op::Store => OpCode::Store,
        Op::Load => OpCode::Load,
        Op::StoreImm(n) => OpCode::StoreImm(*n),
        Op::LoadImm(n) => OpCode::LoadImm(*n),
        Op::VRef => OpCode::VRef,
        Op::VAppend => OpCode::VAppend,
        Op::VEmpty => OpCode::VEmpty,
        Op::VLength => OpCode::VLength,
        Op::VSlice => OpCode::VSlice,
        Op::VSet => OpCode::VSet,
        Op::VPush => OpCode::VPush,
        Op::VCons => OpCode::VCons,
        Op::BRef => OpCode::BRef,
        Op::BAppend => OpCode::BAppend,
        Op::BEmpty => OpCode::BEmpty,
        Op::BLength => OpCode::BLength,
        Op::BSlice => OpCode::BSlice,
        Op::BSet => OpCode::BSet,
        Op::BPush => OpCode::BPush,
        Op::BCons => OpCode::BCons,
        Op::Bez(n) => OpCode::Bez(*n),
        Op::Bnz(n) => OpCode::Bnz(*n),
        Op::Jmp(n) => OpCode::Jmp(*n),
        Op::Loop(n, c) => OpCode::Loop(*n, *c),
        Op::ItoB => OpCode::ItoB,
        Op::BtoI => OpCode::BtoI,
        Op::TypeQ => OpCode::TypeQ,
        Op::PushB(b) => OpCode::PushB(b.clone()),
        Op::PushI(i) => OpCode::PushI(U256::from_be_bytes(*i)),
        Op::PushIC(i) => OpCode::PushIC(U256::from_be_bytes(*i)),
        Op::Dup => OpCode::Dup,
    }
}

pub fn rv_from_value(v: &Value) -> RV {
    match v {
        Value::Int(i) => RV::Int(BigUint::from_bytes_be(&i.to_be_bytes())),
        Value::Bytes(b) => {
            let v: Vec<u8> = b.clone().into();
            RV::Bytes(v)
        }
        Value::Vector(x) => {
            let v: Vec<Value> = x.clone().into();
            RV::Vector(v.iter().map(rv_from_value).collect())
        }
    }
}

/// Size of an implementation value without materialising shared structure (lengths only).
pub fn value_len_hint(v: &Value) -> usize {
    match v {
        Value::Int(_) => 1,
        Value::Bytes(b) => b.len(),
        Value::Vector(x) => x.len(),
    }
}

pub fn value_from_rv(v: &RV) -> Value {
    match v {
        RV::Int(i) => Value::Int(U256::from_be_bytes(int_to_be(i))),
        RV::Bytes(b) => Value::Bytes(CatVec::from(b.as_slice())),
        RV::Vector(x) => {
            let vs: Vec<Value> = x.iter().map(value_from_rv).collect();
            Value::Vector(CatVec::from(vs.as_slice()))
        }
    }
}

pub fn rv_brief(v: &RV) -> String {
    match v {
        RV::Int(i) => format!("Int({})", i),
        RV::Bytes(b) => {
            if b.len() <= 40 {
                format!("Bytes({})", hex::encode(b))
            } else {
                format!("Bytes(len {} {}..)", b.len(), hex::encode(&b[..16]))
            }
        }
        RV::Vector(x) => {
            if x.len() <= 6 {
                format!("Vec[{}]", x.iter().map(rv_brief).collect::<Vec<_>>().join(", "))
            } else {
                format!("Vec(len {})", x.len())
            }
        }
    }
}

pub fn ops_brief(ops: &[Op]) -> String {
    let s: Vec<String> = ops
        .iter()
        .map(|o| match o {
            Op::PushI(i) | Op::PushIC(i) => {
                let n = BigUint::from_bytes_be(i);
                if matches!(o, Op::PushI(_)) { format!("PushI({})", n) } else { format!("PushIC({})", n) }
            }
            Op::PushB(b) => format!("PushB({})", hex::encode(b)),
            other => format!("{:?}", other),
        })
        .collect();
    let j = s.join(" ");
    if j.len() > 600 { format!("{}...", &j[..600]) } else { j }
}
