//! Verdict collection shared by all monitors.
use serde_json::{json, Value};
use std::collections::{BTreeMap, HashSet};

#[derive(Clone, Debug)]
pub struct Violation {
    /// Stable signature `<property>|<rule>|<site>|<input class>` (closed vocabulary per monitor).
    pub signature: String,
    pub detail: String,
    pub witness: Value,
}

#[derive(Default)]
pub struct Report {
    pub property: String,
    pub evaluations: u64,
    pub fingerprints: HashSet<u64>,
    pub samples: Vec<Value>,
    pub counters: BTreeMap<String, u64>,
    pub violations: Vec<Violation>,
    pub vio_counts: BTreeMap<String, u64>,
    pub notes: Vec<String>,
    pub max_samples: usize,
    pub rule: String,
    pub requirements: BTreeMap<String, u64>,
}

impl Report {
    pub fn new(property: &str) -> Self {
        Report { property: property.to_string(), max_samples: 4, ..Default::default() }
    }
    /// Minimum number of observations of `counter` (or "distinct_nontrivial") below which a clean run is inconclusive.
    pub fn require(&mut self, counter: &str, min: u64) {
        self.requirements.insert(counter.to_string(), min);
    }
    pub fn eval(&mut self) {
        self.evaluations += 1;
    }
    pub fn evals(&mut self, n: u64) {
        self.evaluations += n;
    }
    /// Records a case that is non-trivial by the monitor's rule; `fp` identifies it.
    pub fn nontrivial(&mut self, fp: u64) {
        self.fingerprints.insert(fp);
    }
    pub fn count(&mut self, key: &str) {
        *self.counters.entry(key.to_string()).or_insert(0) += 1;
    }
    pub fn count_n(&mut self, key: &str, n: u64) {
        *self.counters.entry(key.to_string()).or_insert(0) += n;
    }
    pub fn max(&mut self, key: &str, v: u64) {
        let e = self.counters.entry(key.to_string()).or_insert(0);
        if v > *e {
            *e = v;
        }
    }
    pub fn sample(&mut self, v: Value) {
        if self.samples.len() < self.max_samples {
            self.samples.push(v);
        }
    }
    pub fn note(&mut self, s: &str) {
        if self.notes.len() < 32 && !self.notes.iter().any(|n| n == s) {
            self.notes.push(s.to_string());
        }
    }
    /// Records a violation; only the first witness per signature is kept, the rest are counted.
    pub fn violate(&mut self, signature: &str, detail: String, witness: Value) {
        let c = self.vio_counts.entry(signature.to_string()).or_insert(0);
        *c += 1;
        if *c == 1 {
            self.violations.push(Violation { signature: signature.to_string(), detail, witness });
        }
    }
    pub fn merge(&mut self, other: Report) {
        self.evaluations += other.evaluations;
        self.fingerprints.extend(other.fingerprints);
        for s in other.samples {
            self.sample(s);
        }
        for (k, v) in other.counters {
            if k.starts_with("max:") {
                let e = self.counters.entry(k).or_insert(0);
                if v > *e {
                    *e = v;
                }
            } else {
                *self.counters.entry(k).or_insert(0) += v;
            }
        }
        for v in other.violations {
            if !self.violations.iter().any(|x| x.signature == v.signature) {
                self.violations.push(v);
            }
        }
        for (k, v) in other.vio_counts {
            *self.vio_counts.entry(k).or_insert(0) += v;
        }
        for n in other.notes {
            self.note(&n);
        }
        if self.rule.is_empty() {
            self.rule = other.rule;
        }
        for (k, v) in other.requirements {
            self.requirements.insert(k, v);
        }
    }
    pub fn to_json(&self, emit_fps: bool) -> Value {
        let mut v = json!({
            "property": self.property,
            "evaluations": self.evaluations,
            "distinct_nontrivial": self.fingerprints.len(),
            "samples": self.samples,
            "counters": self.counters,
            "notes": self.notes,
            "rule": self.rule,
            "requirements": self.requirements,
            "violations": self.violations.iter().map(|x| json!({
                "signature": x.signature, "detail": x.detail, "witness": x.witness,
                "occurrences": self.vio_counts.get(&x.signature).copied().unwrap_or(1)
            })).collect::<Vec<_>>(),
        });
        if emit_fps {
            let mut f: Vec<u64> = self.fingerprints.iter().copied().collect();
            f.sort_unstable();
            v["fingerprints"] = json!(f.iter().map(|x| format!("{:016x}", x)).collect::<Vec<_>>());
        }
        v
    }
}
