//! Shared plumbing: keys, genesis and fabricated states, raw views of the SMTs, protocol constants
//! as the harness understands them (written from the documentation, not imported from melstf).
use std::collections::{BTreeMap, HashMap};

use bytes::Bytes;
use melstf::{CoinMapping, GenesisConfig, SealedState, SmtMapping, UnsealedState};
use melstructs::{
    Address, Block, BlockHeight, CoinData, CoinDataHeight, CoinID, CoinValue, Denom, Header, NetID,
    PoolKey, PoolState, StakeDoc, Transaction, TxHash, TxKind,
};
use novasmt::{Database, InMemoryCas};
use stdcode::StdcodeSerializeExt;
use tip911_stakeset::StakeSet;
use tmelcrypt::{Ed25519PK, Ed25519SK, HashVal};

/// Content-addressed store of the harness: like novasmt's in-memory store, but its contents can
/// be copied node by node into a fresh store (used to model a restart: nothing in memory shared).
#[derive(Default, Debug)]
pub struct RecCas(dashmap::DashMap<Vec<u8>, std::sync::Arc<Vec<u8>>>);

impl novasmt::ContentAddrStore for RecCas {
    fn get<'a>(&'a self, key: &[u8]) -> Option<std::borrow::Cow<'a, [u8]>> {
        self.0.get(key).map(|v| std::borrow::Cow::Owned(v.as_ref().clone()))
    }
    fn insert(&self, key: &[u8], value: &[u8]) {
        self.0.insert(key.to_vec(), std::sync::Arc::new(value.to_vec()));
    }
}

impl RecCas {
    /// A fresh store holding a byte-for-byte copy of every node of this one.
    pub fn deep_copy(&self) -> RecCas {
        let n = RecCas::default();
        for e in self.0.iter() {
            n.0.insert(e.key().clone(), std::sync::Arc::new(e.value().as_ref().clone()));
        }
        n
    }
    pub fn len(&self) -> usize {
        self.0.len()
    }
}

pub type Cas = RecCas;
pub type Db = Database<Cas>;
pub type Unsealed = UnsealedState<Cas>;
pub type Sealed = SealedState<Cas>;

pub const MAX_COINVAL: u128 = 1u128 << 120;
pub const MICRO: u128 = 1_000_000;
pub const STAKE_EPOCH: u64 = 200_000;

pub const TIP_901: u64 = 42_700;
pub const TIP_902: u64 = 180_000;
pub const TIP_906: u64 = 830_000;
pub const TIP_909: u64 = 950_000;
pub const TIP_909A: u64 = 1_048_000;
pub const LEGACY_STAKE_ACCEPT_BELOW: u64 = 500_000;
pub const LEGACY_STAKE_LOCK_BELOW: u64 = 900_000;
pub const LEGACY_DEPOSIT_BELOW: u64 = 978_392;

pub const ALL_NETS: [NetID; 9] = [
    NetID::Testnet,
    NetID::Custom02,
    NetID::Custom03,
    NetID::Custom04,
    NetID::Custom05,
    NetID::Custom06,
    NetID::Custom07,
    NetID::Custom08,
    NetID::Mainnet,
];

/// Whether a rule change with the given mainnet activation height applies at `height` on `net`
/// (mainnet: from that height; testnet: from 500; custom networks: from genesis).
pub fn tip_active(net: NetID, height: u64, activation: u64) -> bool {
    match net {
        NetID::Mainnet => height >= activation,
        NetID::Testnet => height >= 500,
        _ => true,
    }
}
pub fn tip908_active(net: NetID) -> bool {
    net == NetID::Custom08
}
pub fn legacy_net(net: NetID) -> bool {
    net == NetID::Mainnet || net == NetID::Testnet
}

pub fn new_db() -> Db {
    Database::new(RecCas::default())
}

// ---------------------------------------------------------------------------------------------
// keys and standard covenants

#[derive(Clone, Copy, Debug)]
pub struct Key {
    pub pk: Ed25519PK,
    pub sk: Ed25519SK,
}

pub fn make_key(seed: [u8; 32]) -> Key {
    let sk = ed25519_consensus::SigningKey::from(seed);
    let pk = ed25519_consensus::VerificationKey::from(&sk).to_bytes();
    let mut full = [0u8; 64];
    full[..32].copy_from_slice(&seed);
    full[32..].copy_from_slice(&pk);
    Key { pk: Ed25519PK(pk), sk: Ed25519SK(full) }
}

pub fn key_n(seed: u64, n: u64) -> Key {
    let h = blake3::hash(format!("melverif-key-{}-{}", seed, n).as_bytes());
    make_key(*h.as_bytes())
}

pub fn addr_of(cov: &[u8]) -> Address {
    Address(tmelcrypt::hash_single(cov))
}

pub fn always_true_cov() -> Vec<u8> {
    // PushI(1)
    let mut v = vec![0xf1];
    v.extend_from_slice(&[0u8; 31]);
    v.push(1);
    v
}

pub fn ed25519_new_cov(pk: &Ed25519PK) -> Vec<u8> {
    melvm::Covenant::std_ed25519_pk_new(*pk).to_bytes().to_vec()
}
pub fn ed25519_legacy_cov(pk: &Ed25519PK) -> Vec<u8> {
    melvm::Covenant::std_ed25519_pk_legacy(*pk).to_bytes().to_vec()
}

// ---------------------------------------------------------------------------------------------
// genesis and fabricated states

pub fn genesis(
    db: &Db,
    net: NetID,
    init: CoinData,
    fee_pool: u128,
    fee_multiplier: u128,
    stakes: BTreeMap<TxHash, StakeDoc>,
) -> Unsealed {
    GenesisConfig {
        network: net,
        init_coindata: init,
        stakes,
        init_fee_pool: CoinValue(fee_pool),
        init_fee_multiplier: fee_multiplier,
    }
    .realize(db)
}

pub fn builtin_pool() -> PoolState {
    let mut p = PoolState::new_empty();
    let _ = p.deposit(MICRO * 1000, MICRO * 1000);
    p
}

pub struct Fab {
    pub net: NetID,
    pub height: u64,
    pub fee_pool: u128,
    pub fee_multiplier: u128,
    pub dosc_speed: u128,
    pub coins: Vec<(CoinID, CoinDataHeight)>,
    pub pools: Vec<(PoolKey, PoolState)>,
    pub stakes: Vec<(TxHash, StakeDoc)>,
    /// dosc_speed recorded in the fabricated parent header
    pub parent_dosc_speed: u128,
    /// further (fabricated) ancestors to put into the history tree
    pub extra_history: Vec<Header>,
}

impl Fab {
    pub fn new(net: NetID, height: u64) -> Self {
        Fab {
            net,
            height,
            fee_pool: 0,
            fee_multiplier: 0,
            dosc_speed: MICRO,
            coins: vec![],
            pools: vec![],
            stakes: vec![],
            parent_dosc_speed: MICRO,
            extra_history: vec![],
        }
    }
    /// Builds a sealed state at `height` through the public API only: the three SMTs are written
    /// into `db`, the history tree gets one ancestor (height-1) and `from_block` does the rest.
    pub fn build(&self, db: &Db) -> Sealed {
        let t906 = tip_active(self.net, self.height, TIP_906);
        let t902 = tip_active(self.net, self.height, TIP_902);
        let mut coins = CoinMapping::new(db.get_tree([0u8; 32]).unwrap());
        for (id, cdh) in &self.coins {
            coins.insert_coin(*id, cdh.clone(), t906);
        }
        let mut pools: SmtMapping<Cas, PoolKey, PoolState> = SmtMapping::new(db.get_tree([0u8; 32]).unwrap());
        pools.insert(PoolKey::new(Denom::Mel, Denom::Sym), builtin_pool());
        pools.insert(PoolKey::new(Denom::Mel, Denom::Erg), builtin_pool());
        if t902 {
            pools.insert(PoolKey::new(Denom::Erg, Denom::Sym), builtin_pool());
        }
        for (k, p) in &self.pools {
            pools.insert(*k, *p);
        }
        let mut history: SmtMapping<Cas, BlockHeight, Header> = SmtMapping::new(db.get_tree([0u8; 32]).unwrap());
        if self.height > 0 {
            let parent = Header {
                network: self.net,
                previous: HashVal([7u8; 32]),
                height: BlockHeight(self.height - 1),
                history_hash: HashVal([1u8; 32]),
                coins_hash: HashVal([2u8; 32]),
                transactions_hash: HashVal([0u8; 32]),
                fee_pool: CoinValue(self.fee_pool),
                fee_multiplier: self.fee_multiplier,
                dosc_speed: self.parent_dosc_speed,
                pools_hash: HashVal([3u8; 32]),
                stakes_hash: HashVal([4u8; 32]),
            };
            history.insert(BlockHeight(self.height - 1), parent);
        }
        for h in &self.extra_history {
            history.insert(h.height, *h);
        }
        let stakes = StakeSet::new(self.stakes.iter().cloned());
        let header = Header {
            network: self.net,
            previous: HashVal([0u8; 32]),
            height: BlockHeight(self.height),
            history_hash: history.root_hash(),
            coins_hash: coins.root_hash(),
            transactions_hash: HashVal([0u8; 32]),
            fee_pool: CoinValue(self.fee_pool),
            fee_multiplier: self.fee_multiplier,
            dosc_speed: self.dosc_speed,
            pools_hash: pools.root_hash(),
            stakes_hash: HashVal([0u8; 32]),
        };
        let blk = Block { header, transactions: Default::default(), proposer_action: None };
        SealedState::from_block(&blk, &stakes, db)
    }
}

// ---------------------------------------------------------------------------------------------
// raw views

pub type RawMap = BTreeMap<[u8; 32], Vec<u8>>;

pub fn raw_tree(db: &Db, root: [u8; 32]) -> RawMap {
    let t = db.get_tree(root).unwrap();
    t.iter().map(|(k, v)| (k, v.to_vec())).collect()
}

pub fn coin_key(id: &CoinID) -> [u8; 32] {
    tmelcrypt::hash_single(&id.stdcode()).0
}
pub fn count_key(cov: &Address) -> [u8; 32] {
    tmelcrypt::hash_keyed(b"coin_count", cov.0).0
}
pub fn pool_slot_key(bytes: &[u8]) -> [u8; 32] {
    // PoolKey serialises as its byte representation (a length-prefixed byte string)
    tmelcrypt::hash_single(&stdcode::serialize(&bytes.to_vec()).unwrap()).0
}
pub fn height_key(h: u64) -> [u8; 32] {
    tmelcrypt::hash_single(&stdcode::serialize(&BlockHeight(h)).unwrap()).0
}
pub fn faucet_marker(txhash: TxHash) -> CoinID {
    CoinID { txhash: TxHash(tmelcrypt::hash_keyed(b"fdp", txhash.0)), index: 0 }
}
pub fn marker_cdh() -> CoinDataHeight {
    CoinDataHeight {
        coin_data: CoinData {
            denom: Denom::Mel,
            value: CoinValue(0),
            additional_data: Bytes::new(),
            covhash: Address(HashVal([0u8; 32])),
        },
        height: BlockHeight(0),
    }
}

/// An entry of the coin tree, classified by shape.
#[derive(Clone, Debug, PartialEq, Eq)]
pub enum CoinEntry {
    Coin(CoinDataHeight),
    Count(u64),
    Unknown(Vec<u8>),
}

pub fn classify_coin_entry(v: &[u8]) -> CoinEntry {
    if v.len() <= 10 {
        if let Ok(n) = stdcode::deserialize::<u64>(v) {
            if n.stdcode() == v {
                return CoinEntry::Count(n);
            }
        }
    }
    match stdcode::deserialize::<CoinDataHeight>(v) {
        Ok(c) if c.stdcode() == v => CoinEntry::Coin(c),
        _ => CoinEntry::Unknown(v.to_vec()),
    }
}

#[derive(Clone, Debug)]
pub struct View {
    pub snap: melstf::verif::Snap,
    pub coins: RawMap,
    pub pools: RawMap,
}

pub fn view_of(db: &Db, st: &Unsealed, label: &'static str) -> View {
    let snap = st.verif_snap(label);
    view_of_snap(db, snap)
}
pub fn view_of_snap(db: &Db, snap: melstf::verif::Snap) -> View {
    let coins = raw_tree(db, snap.coins_root);
    let pools = raw_tree(db, snap.pools_root);
    View { snap, coins, pools }
}

impl View {
    pub fn coin_entries(&self) -> impl Iterator<Item = (&[u8; 32], CoinDataHeight)> + '_ {
        self.coins.iter().filter_map(|(k, v)| match classify_coin_entry(v) {
            CoinEntry::Coin(c) => Some((k, c)),
            _ => None,
        })
    }
    pub fn pool_entries(&self) -> impl Iterator<Item = (&[u8; 32], PoolState)> + '_ {
        self.pools.iter().filter_map(|(k, v)| stdcode::deserialize::<PoolState>(v).ok().map(|p| (k, p)))
    }
}

/// The canonical denominations of a pool storage slot, derived from the slot's byte name alone:
/// short names are MEL paired with the named denomination, ordered by byte representation; long
/// names carry both sides as written.
pub fn slot_denoms(slot_bytes: &[u8]) -> Option<(Denom, Denom)> {
    if slot_bytes.len() > 32 {
        if slot_bytes[..32] != [0u8; 32] {
            return None;
        }
        let lr: (Denom, Denom) = stdcode::deserialize(&slot_bytes[32..]).ok()?;
        Some(lr)
    } else {
        let other = Denom::from_bytes(slot_bytes)?;
        let m = Denom::Mel;
        if m.to_bytes() < other.to_bytes() {
            Some((m, other))
        } else if m.to_bytes() > other.to_bytes() {
            Some((other, m))
        } else {
            // "m": MEL/MEL, only reachable through the long spelling
            Some((m, m))
        }
    }
}

pub fn denom_name(d: &Denom) -> String {
    match d {
        Denom::Mel => "MEL".into(),
        Denom::Sym => "SYM".into(),
        Denom::Erg => "ERG".into(),
        Denom::NewCustom => "NEWCUSTOM".into(),
        Denom::Custom(h) => format!("C-{}", hex::encode(&h.0 .0[..6])),
    }
}

// ---------------------------------------------------------------------------------------------
// transaction helpers

pub fn tx_hex(tx: &Transaction) -> String {
    hex::encode(tx.stdcode())
}

pub fn tx_brief(tx: &Transaction) -> serde_json::Value {
    serde_json::json!({
        "kind": format!("{}", tx.kind),
        "inputs": tx.inputs.iter().map(|i| format!("{}-{}", hex::encode(&i.txhash.0.0[..6]), i.index)).collect::<Vec<_>>(),
        "outputs": tx.outputs.iter().map(|o| format!("{}:{}:{}", denom_name(&o.denom), o.value.0, hex::encode(&o.covhash.0.0[..4]))).collect::<Vec<_>>(),
        "fee": tx.fee.0.to_string(),
        "data": hex::encode(&tx.data[..tx.data.len().min(48)]),
        "n_covenants": tx.covenants.len(),
        "n_sigs": tx.sigs.len(),
        "hash": hex::encode(&tx.hash_nosigs().0.0[..8]),
    })
}

pub fn header_json(h: &Header) -> serde_json::Value {
    serde_json::json!({
        "network": h.network as u8, "height": h.height.0, "previous": hex::encode(&h.previous.0[..8]),
        "history": hex::encode(&h.history_hash.0[..8]), "coins": hex::encode(&h.coins_hash.0[..8]),
        "txs": hex::encode(&h.transactions_hash.0[..8]), "fee_pool": h.fee_pool.0.to_string(),
        "fee_multiplier": h.fee_multiplier.to_string(), "dosc_speed": h.dosc_speed.to_string(),
        "pools": hex::encode(&h.pools_hash.0[..8]), "stakes": hex::encode(&h.stakes_hash.0[..8]),
    })
}

pub fn is_faucet(tx: &Transaction) -> bool {
    tx.kind == TxKind::Faucet
}

pub const GRANDFATHERED_FAUCET: &str = "30a60b20830f000f755b70c57c998553a303cc11f8b1f574d5e9f7e26b645d8b";

pub type CoinMap = HashMap<CoinID, CoinDataHeight>;
